"""C11 Reusing saved module results reproduces the original results.

One generated record carries input for six modules (full_hmmer, sideloader, hmm_detection, cluster_hmmer,
nrps_pks_domains, tta). The real `main.run_detection` / `main.analyse_record` run it once from scratch (HMMER
front ends replaced by generated hit lists, rule sets built from generated rule text with DynamicProfile hits),
every results object is saved with `to_json` + antiSMASH's own json dumps, and the same real functions are run
again on a FRESH copy of the record with only the saved JSON as `module_results` (so `run_module` goes through
`regenerate_previous_results` -> `run_on_record(previous)` -> `add_to_record` / `get_predicted_*`), twice in a row.
Observed: the saved text of every module after each cycle (byte equality), the identity of the object each module
returned (reused, not silently recomputed), the Biopython features and qualifiers of the three records (what the
results added: protoclusters, subregions, domains, modules, motifs, PFAM domains, TTA markers, gene functions,
sec_met and NRPS_PKS qualifiers) and the predicted protoclusters/subregions of the detection results.
Then every guard field is changed, one at a time, in the saved JSON, in the record or in the options, and the
module's own `regenerate_previous_results` + `run_on_record` must discard or refuse the results - or, where the
module documents a re-interpretation (hmmer refilter, TTA threshold), give exactly what a fresh run under the new
settings gives.
"""
from __future__ import annotations

import copy
import logging
import os
import shutil
import tempfile
import traceback
import zlib
from types import SimpleNamespace

import antismash.main as AM
from antismash.common import json as AJ
from antismash.common import hmmer as HM
from antismash.common import pfamdb, subprocessing
from antismash.common.hmm_rule_parser import cluster_prediction as CP
from antismash.common.hmm_rule_parser.structures import Multipliers
from antismash.config import build_config, destroy_config, get_config, update_config
from antismash.detection import cluster_hmmer, full_hmmer, hmm_detection, nrps_pks_domains, sideloader
from antismash.detection.nrps_pks_domains import domain_identification as DI
from antismash.detection.sideloader.data_structures import SideloadSimple
from antismash.modules import tta
from antismash.modules.tta import tta as TTA

from vf import findings
from vf.gen import c11_cases as C

PROPERTY = "C11"
LEVEL = "exploration"
PARALLEL = True
RULE = ("cases: a pipeline world (3-30 kb, linear/circular, 2-10 genes incl. two-part genes over the origin, 1-5 "
        "generated rules split over the three strictness levels, fungal multipliers) with random DNA of 30/50/70 % GC "
        "and in-frame TTA codons sown into genes (also on the exon border / origin), a sideload document in the "
        "module's JSON schema (0-3 subregions, 0-2 protoclusters, areas over the origin, details, --sideload-simple, "
        "--sideload-by-cds), NRPS/PKS domain words (template modules cut over neighbouring genes, double carrier "
        "proteins, nested subtype hits, motifs) and hmmscan hits around the hmmer thresholds. Per case: 1 run from "
        "scratch, 2 reload cycles on fresh records, every guard field changed once. Non-trivial: at least three "
        "modules produced non-empty results; distinct by case.")
ASSUMPTIONS = [
    "A 'fresh copy of the record' is the record rebuilt from the case (same id, sequence, genes, translations), not the "
    "record read back from a results file: record (de)serialisation is C10's subject.",
    "HMMER front ends (run_hmmscan for full/cluster hmmer; find_domains, find_subtypes, find_ab_motifs, "
    "get_database_path for NRPS/PKS domains) are replaced by generated hit lists; rule sets come from generated rule "
    "text through the real parser with DynamicProfile hits and stand in for the shipped files at Ruleset.from_files; "
    "hmm_detection.get_ruleset (selection, multipliers, cache) is the real one, its cache emptied before each case.",
    "'Discarded or refused' is decided at module level: regenerate_previous_results returns None or raises, or "
    "run_on_record does not return the regenerated object (TTA checks the record id there). A logged warning is not "
    "a refusal.",
    "Documented re-interpretations are accepted only when they equal a fresh run under the new settings: TTA under "
    "another threshold (same record, same regions) and hmmer results saved under more lenient thresholds, the latter "
    "only for extra hits that overlap no other hit (overlap filtering happens before saving, so overlapping extra "
    "hits legitimately change what was saved; for those only 'every kept hit satisfies the thresholds' is required).",
    "Reuse under another strictness is accepted only when the rule set of that level has the same rule names and the "
    "reused results still save to the original text (they keep their own strictness label).",
    "Feature order inside a record is not part of 'the same features': multisets of (type, location, qualifiers) are "
    "compared; order differences are only counted.",
    "cand_cluster and region features are not added by any results object but derived by Record.create_candidate_"
    "clusters / create_regions from the protoclusters and subregions that were added. For protoclusters with identical "
    "coordinates their member order, Region.detection_rules and even the set of single candidates follow set iteration "
    "over address-hashed objects and differ between two runs from scratch as often as between a run and a reload "
    "(measured: 15 resp. 12 of 67 cases), so they are excluded from the verdict and only counted (C05/C17 subject).",
    "Equality of the information held by two results objects (clause results-object-state-identical) is decided on a "
    "generic dump of all attributes (sets sorted, features by what they write to a record); it exists to see fields "
    "that a to_json forgets although nothing else depends on them.",
]

MODULES = {
    "full_hmmer": full_hmmer, "sideloader": sideloader, "hmm_detection": hmm_detection,
    "cluster_hmmer": cluster_hmmer, "nrps_pks_domains": nrps_pks_domains, "tta": tta,
}
SHORT = {mod.__name__: short for short, mod in MODULES.items()}
DETECTION = ["sideloader", "hmm_detection"]

REQUIRED = (
    [f"op:bytes:{m}" for m in MODULES] + [f"nonempty:{m}" for m in MODULES]
    + ["op:module-not-enabled-on-reuse", "glue:reuse-with-limit", "guard:results-file:schema", "op:record-features", "op:second-cycle", "op:predicted-areas", "op:reused-object",
       "shape:protocluster-over-origin", "shape:sideloaded-area-over-origin", "shape:cross-cds-module",
       "shape:double-carrier-module", "shape:nested-subtype", "shape:split-tta-codon", "shape:tta-skipped-low-gc",
       "shape:gc-equals-threshold", "shape:fungal-multipliers", "shape:hmmer-boundary-hit",
       "shape:cds-outside-protoclusters", "shape:multi-domain-definition",
       "guard:hmm_detection:schema_version", "guard:hmm_detection:rule_results.schema_version",
       "guard:hmm_detection:json-record_id", "guard:hmm_detection:record-id", "guard:hmm_detection:enabled_types",
       "guard:hmm_detection:strictness", "guard:hmm_detection:cutoff-multiplier",
       "guard:hmm_detection:neighbourhood-multiplier",
       "guard:sideloader:schema_version", "guard:sideloader:json-record_id", "guard:sideloader:record-id",
       "guard:nrps_pks_domains:schema_version", "guard:nrps_pks_domains:json-record_id",
       "guard:nrps_pks_domains:record-id",
       "guard:cluster_hmmer:schema", "guard:cluster_hmmer:json-record-id", "guard:cluster_hmmer:record-id",
       "guard:cluster_hmmer:stricter-saved", "guard:cluster_hmmer:lenient-saved", "guard:cluster_hmmer:database",
       "guard:full_hmmer:schema", "guard:full_hmmer:json-record-id", "guard:full_hmmer:record-id",
       "guard:full_hmmer:stricter-saved", "guard:full_hmmer:lenient-saved", "guard:full_hmmer:database",
       "guard:tta:schema_version", "guard:tta:json-record_id", "guard:tta:record-id", "guard:tta:threshold"])


# ---------------------------------------------------------------------------------------------
# harness state: scratch directory, options, replaced front ends
# ---------------------------------------------------------------------------------------------

class State:
    tmp = None
    case = None
    domains = None      # {gene: [HMMResult]} for the flow in progress
    motifs = None
    pfam_thresholds = None
    captured = None     # {module short name: ("ok", obj) | ("raised", err)} from regenerate_previous_results
    originals = None
    scans = 0
    side_text = None


S = State()


def _fake_hmmscan(_database, query_sequence, opts=None, results_file=None):  # pylint: disable=unused-argument
    S.scans += 1
    names = [line[1:].strip() for line in query_sequence.splitlines() if line.startswith(">")]
    out = []
    for name in names:
        hits = (S.case or {}).get("pfam", {}).get(name)
        if not hits:
            continue
        hsps = [SimpleNamespace(bitscore=float(score), evalue=float(evalue), query_id=name, query_start=start,
                                query_end=end, hit_id=profile, hit_description=f"generated {profile}")
                for profile, start, end, score, evalue in hits]
        out.append(SimpleNamespace(id=name, hsps=hsps))
    return out


def _names_in(fasta: str) -> set:
    return {line[1:].strip() for line in fasta.splitlines() if line.startswith(">")}


def _fake_find_domains(fasta, _record):
    return {name: hits for name, hits in S.domains.items() if name in _names_in(fasta)}


def _fake_find_motifs(fasta):
    return {name: hits for name, hits in S.motifs.items() if name in _names_in(fasta)}


def setup(ctx) -> None:
    logging.disable(logging.CRITICAL)
    S.tmp = tempfile.mkdtemp(prefix=f"vf-c11-{os.getpid()}-", dir="/tmp")
    for version in C.PFAM_VERSIONS:
        path = os.path.join(S.tmp, "db", "pfam", version)
        os.makedirs(path)
        with open(os.path.join(path, "Pfam-A.hmm"), "w", encoding="utf-8") as handle:
            handle.write(C.pfam_database_text())
    destroy_config()
    build_config(["--clusterhmmer", "--fullhmmer", "--tta-threshold", "0.65", "--databases", os.path.join(S.tmp, "db")],
                 isolated=True, modules=list(MODULES.values()))
    S.originals = [(subprocessing, "run_hmmscan", subprocessing.run_hmmscan),
                   (DI, "find_domains", DI.find_domains), (DI, "find_subtypes", DI.find_subtypes),
                   (DI, "find_ab_motifs", DI.find_ab_motifs), (DI, "get_database_path", DI.get_database_path)]
    S.originals.append((CP.Ruleset, "from_files", CP.Ruleset.__dict__["from_files"]))
    CP.Ruleset.from_files = classmethod(_fake_from_files)
    subprocessing.run_hmmscan = _fake_hmmscan
    DI.find_domains = _fake_find_domains
    DI.find_subtypes = lambda *a, **k: {}
    DI.find_ab_motifs = _fake_find_motifs
    DI.get_database_path = lambda *a, **k: ""
    for short, module in MODULES.items():
        original = module.regenerate_previous_results
        S.originals.append((module, "regenerate_previous_results", original))

        def wrapper(previous, record, options, _original=original, _short=short):
            try:
                result = _original(previous, record, options)
            except Exception as err:  # pylint: disable=broad-except
                if S.captured is not None:
                    S.captured[_short] = ("raised", err)
                raise
            if S.captured is not None:
                S.captured[_short] = ("ok", result)
            return result
        module.regenerate_previous_results = wrapper
    ctx.count("setup")


def teardown() -> None:
    for owner, name, original in reversed(S.originals or []):
        setattr(owner, name, original)
    S.originals = None
    hmm_detection._RULESETS.clear()  # pylint: disable=protected-access
    pfamdb.KNOWN_MAPPINGS.clear()
    pfamdb.KNOWN_CUTOFFS.clear()
    destroy_config()
    if S.tmp and os.path.isdir(S.tmp):
        shutil.rmtree(S.tmp, ignore_errors=True)
    S.tmp = None
    S.side_text = None
    logging.disable(logging.NOTSET)


def multipliers_of(case, override=None):
    if case["opts"]["taxon"] != "fungi":
        return (1.0, 1.0)
    return tuple(override or case["world"]["multipliers"])


def _fake_from_files(cls, _signature_file, _seeds, rule_files, _categories, _filter_file, _tool, *,
                     dynamic_profiles=None, multipliers=None):
    """ stands in for reading the shipped signature and rule files: the generated rules of the strictness level the
        rule files belong to (one file per level, cumulative), freshly parsed, unscaled unless multipliers are given """
    del cls, dynamic_profiles
    level = C.LEVELS[len(rule_files) - 1]
    pair = (multipliers.cutoff, multipliers.neighbourhood) if multipliers is not None else (1.0, 1.0)
    ruleset = C.build_ruleset(S.case, level, pair)
    if ruleset is None:
        raise ValueError(f"no generated rules for level {level}")
    return ruleset


def install_rulesets(case, multiplier_pairs) -> bool:
    """ every case starts with an empty ruleset cache; hmm_detection.get_ruleset fills it itself, reading the
        generated rules where it would read the shipped files. False when some level has no usable rules. """
    del multiplier_pairs
    hmm_detection._RULESETS.clear()  # pylint: disable=protected-access
    for level in C.LEVELS:
        try:
            if C.build_ruleset(case, level, (1.0, 1.0)) is None:
                return False
        except (ValueError, SyntaxError):
            return False
    return True


def apply_options(case, record, **override):
    opts = case["opts"]
    side = case["sideload"]
    cutoff, neighbourhood = case["world"]["multipliers"] if opts["taxon"] == "fungi" else (1.0, 1.5)
    threshold = opts["tta_threshold"]
    if threshold == "gc":
        threshold = record.get_gc_content()
    files = []
    if side["subregions"] or side["protoclusters"]:
        path = os.path.join(S.tmp, "sideload.json")
        text = AJ.dumps(C.sideload_document(case))
        if S.side_text != text:
            with open(path, "w", encoding="utf-8") as handle:
                handle.write(text)
            S.side_text = text
        files = [path]
    values = {
        "taxon": opts["taxon"], "hmmdetection_strictness": opts["strictness"],
        "hmmdetection_fungal_cutoff_multiplier": cutoff, "hmmdetection_fungal_neighbourhood_multiplier": neighbourhood,
        "hmmdetection_limit_to_rules": [], "hmmdetection_limit_to_categories": [],
        "tta_threshold": threshold, "tta_enabled": True, "minimal": False,
        "sideload": files, "sideload_simple": SideloadSimple(C.RECORD_ID, *side["simple"]) if side["simple"] else "",
        "sideload_cds_markers": list(side["markers"]), "sideload_cds_padding": side["padding"],
        "clusterhmmer_pfamdb_version": C.PFAM_VERSIONS[-1], "fullhmmer_pfamdb_version": C.PFAM_VERSIONS[-1],
        "clusterhmmer": True, "fullhmmer": True,
        "all_enabled_modules": list(MODULES.values()),
    }
    values.update(override)
    return update_config(values)


def run_flow(case, record, previous=None) -> dict:
    """ what main._run_antismash does for one record: detection, analysis, then annotation by analysis results """
    S.domains, S.motifs = C.domain_hits(case)
    module_results = dict(previous or {})
    options = get_config()
    AM.run_detection(record, options, module_results)
    if record.get_regions():
        AM.analyse_record(record, options, [tta], module_results)
        found = module_results.get(tta.__name__)
        if isinstance(found, TTA.TTAResults):
            found.add_to_record(record)
    return module_results


# ---------------------------------------------------------------------------------------------
# views
# ---------------------------------------------------------------------------------------------

DERIVED = ("cand_cluster", "region")
# cand_cluster and region features are built by Record.create_candidate_clusters / create_regions from the protoclusters
# and subregions the results added. With protoclusters of identical coordinates their member order, the pairing of
# products with rule texts (Region.detection_rules) and even which single candidates exist follow set iteration over
# address-hashed objects and change between two runs from scratch: C05/C17 subject, only counted here.


def feature_view(feature):
    quals = []
    for key, value in feature.qualifiers.items():
        if isinstance(value, (list, tuple)):
            values = tuple(str(v) for v in value)
        else:
            values = (str(value),)
        quals.append((key, values))
    return (feature.type, str(feature.location), tuple(sorted(quals)))


def record_view(record) -> list:
    """ everything the results (and the pipeline steps between them) put into the record, except derived areas """
    return [feature_view(f) for f in record.to_biopython().features if f.type not in DERIVED]


def derived_view(record) -> list:
    return sorted(feature_view(f) for f in record.to_biopython().features if f.type in DERIVED)


def areas_view(results) -> list:
    out = []
    for area in list(results.get_predicted_protoclusters()) + list(results.get_predicted_subregions()):
        out.extend(feature_view(f) for f in area.to_biopython())
    return out


def content_of(obj, depth: int = 0):
    """ the content of a results object as plain data: attributes of every reachable object, sets sorted, secmet
        features by what they write to a record, CDS features by name. Two results objects with the same state hold
        the same information, whatever their to_json chooses to save. """
    from antismash.common.secmet.features import CDSFeature, Feature
    if depth > 25:
        return "<deep>"
    if obj is None or isinstance(obj, (str, int, float, bool)):
        return obj
    if isinstance(obj, CDSFeature):
        return ("CDS", obj.get_name())
    if isinstance(obj, Feature):
        return ("feature", [feature_view(f) for f in obj.to_biopython()])
    if isinstance(obj, dict):
        items = [(content_of(k, depth + 1), content_of(v, depth + 1)) for k, v in obj.items()]
        return ("dict", sorted(items, key=repr))
    if isinstance(obj, (set, frozenset)):
        return ("set", sorted((content_of(v, depth + 1) for v in obj), key=repr))
    if isinstance(obj, (list, tuple)):
        values = [content_of(v, depth + 1) for v in obj]
        if obj and all(isinstance(v, Feature) for v in obj):
            values = sorted(values, key=repr)   # e.g. TTA markers: whole codons and split codons are kept apart when saved
        return ("list", values)
    if hasattr(obj, "parts") and hasattr(obj, "strand"):
        return ("location", str(obj))
    names = []
    for cls in type(obj).__mro__:
        names.extend(getattr(cls, "__slots__", ()) if not isinstance(getattr(cls, "__slots__", ()), str)
                     else [getattr(cls, "__slots__")])
    names.extend(getattr(obj, "__dict__", {}))
    out = []
    for name in sorted(set(names)):
        if name.startswith("__") or not hasattr(obj, name):
            continue
        out.append((name, content_of(getattr(obj, name), depth + 1)))
    return (type(obj).__name__, out)


def state_difference(a, b, path="") -> str:
    """ the attribute path of the first difference between two states """
    if type(a) is not type(b):
        return path or "/"
    if isinstance(a, tuple) and len(a) == 2 and isinstance(a[0], str) and isinstance(a[1], list) \
            and isinstance(b[1], list) and a[0] == b[0]:
        kind, left, right = a[0], a[1], b[1]
        if len(left) != len(right):
            return f"{path}/{kind}(length)"
        for x, y in zip(left, right):
            if x != y:
                if isinstance(x, tuple) and len(x) == 2 and isinstance(x[0], str) and kind not in ("list", "set", "dict", "feature"):
                    return state_difference(x[1], y[1], f"{path}/{x[0]}")
                if kind == "dict" and isinstance(x, tuple):
                    return state_difference(x[1], y[1], f"{path}/{{}}")
                return state_difference(x, y, f"{path}/{kind}[]")
        return path
    return path or "/"


def diff_views(before: list, after: list) -> dict:
    """ structural description of the difference between two feature multisets """
    left, right = sorted(before), sorted(after)
    only_before = list(left)
    only_after = []
    for item in right:
        if item in only_before:
            only_before.remove(item)
        else:
            only_after.append(item)
    types = sorted({f[0] for f in only_before} | {f[0] for f in only_after})
    keys = set()
    order_only = bool(only_before) and len(only_before) == len(only_after)
    by_place = {}
    for f in only_after:
        by_place.setdefault((f[0], f[1]), []).append(f)
    for f in only_before:
        others = by_place.get((f[0], f[1]))
        if not others:
            order_only = False
            continue
        other = others.pop(0)
        a, b = dict(f[2]), dict(other[2])
        for k in set(a) | set(b):
            if a.get(k) != b.get(k):
                keys.add(k)
                if sorted(a.get(k, ())) != sorted(b.get(k, ())):
                    order_only = False
    return {"feature_types": types, "only_in_original": len(only_before), "only_in_reloaded": len(only_after),
            "qualifiers_differing": sorted(keys), "only_value_order_differs": order_only,
            "example_original": [list(map(str, f[:2])) for f in only_before[:2]],
            "example_reloaded": [list(map(str, f[:2])) for f in only_after[:2]]}


def save(module_results: dict) -> dict:
    """ {short name: saved text} for every results object, the way serialiser.dump_records saves them """
    out = {}
    for name, results in module_results.items():
        if results is None or isinstance(results, dict):
            continue
        out[SHORT[name]] = AJ.dumps(results.to_json())
    return out


def first_difference(a: str, b: str) -> dict:
    ja, jb = AJ.loads(a), AJ.loads(b)

    def walk(x, y, path):
        if type(x) is not type(y):
            return path, f"{type(x).__name__} vs {type(y).__name__}"
        if isinstance(x, dict):
            if list(x) != list(y):
                if sorted(x) == sorted(y):
                    return path, "key order"
                return path, "keys " + ",".join(sorted(set(x) ^ set(y)))[:80]
            for k in x:
                found = walk(x[k], y[k], path + [k])
                if found:
                    return found
            return None
        if isinstance(x, list):
            if len(x) != len(y):
                return path, f"length {len(x)} vs {len(y)}"
            if x != y and all(isinstance(v, (str, int, float)) for v in x + y) and sorted(map(str, x)) == sorted(map(str, y)):
                return path, "same elements, other order"
            for i, (p, q) in enumerate(zip(x, y)):
                found = walk(p, q, path + ["[]"])
                if found:
                    return found
            return None
        if x != y:
            return path, f"{str(x)[:40]!r} vs {str(y)[:40]!r}"
        return None
    found = walk(ja, jb, [])
    if not found:
        return {"json_path": "(text only)", "difference": "same data, different text"}
    # indices and gene/rule names are not structural: keep the field names only
    world = (S.case or {}).get("world", {})
    names = set(world.get("genes", {})) | {r["name"] for r in world.get("rules", [])}
    fields = [p for p in found[0] if p not in names]
    return {"json_path": "/".join(fields), "difference": found[1]}


# ---------------------------------------------------------------------------------------------
# the case
# ---------------------------------------------------------------------------------------------

def case_facts(case) -> dict:
    world = case["world"]
    return {"circular": world["circular"], "taxon": case["opts"]["taxon"], "strictness": case["opts"]["strictness"],
            "genes": len(world["genes"]), "rules": len(world["rules"]),
            "gene_over_origin": any(len(g["loc"]["parts"]) > 1 for g in world["genes"].values())}


def shapes_of(ctx, case, record, results: dict) -> None:
    hmm = results.get("hmm_detection")
    if hmm is not None:
        if any(len(p.location.parts) > 1 for p in hmm.get_predicted_protoclusters()):
            ctx.count("shape:protocluster-over-origin")
        if hmm.rule_results.cdses_outside_clusters:
            ctx.count("shape:cds-outside-protoclusters")
        every = [r for rs in hmm.rule_results.cds_by_cluster.values() for r in rs] + hmm.rule_results.cdses_outside_clusters
        if any(len(v) > 1 for r in every for v in r.definition_domains.values()):
            ctx.count("shape:multi-domain-definition")
        if case["opts"]["taxon"] == "fungi" and tuple(case["world"]["multipliers"]) != (1.0, 1.0):
            ctx.count("shape:fungal-multipliers")
    side = results.get("sideloader")
    if side is not None and any(len(a.build_location().parts) > 1 for a in side.get_areas()):
        ctx.count("shape:sideloaded-area-over-origin")
    nrps = results.get("nrps_pks_domains")
    if nrps is not None:
        for res in nrps.cds_results.values():
            for module in res.modules:
                if len({c.locus for c in module.components}) > 1:
                    ctx.count("shape:cross-cds-module")
                if sum(1 for c in module.components if c.is_carrier_protein()) > 1:
                    ctx.count("shape:double-carrier-module")
            if any(hit.internal_hits for hit in res.domain_hmms):
                ctx.count("shape:nested-subtype")
    found = results.get("tta")
    if found is not None:
        if found.split_codons:
            ctx.count("shape:split-tta-codon")
        if found.gc_content < found.threshold:
            ctx.count("shape:tta-skipped-low-gc")
        if found.gc_content == found.threshold:
            ctx.count("shape:gc-equals-threshold")
    for short in ("cluster_hmmer", "full_hmmer"):
        res = results.get(short)
        if res is not None and any(h[3] == 0.0 or h[4] == 0.01 for hits in case["pfam"].values() for h in hits):
            ctx.count("shape:hmmer-boundary-hit")


def nonempty(short: str, results) -> bool:
    if short in ("cluster_hmmer", "full_hmmer"):
        return bool(results.hits)
    if short == "sideloader":
        return bool(results.get_areas())
    if short == "hmm_detection":
        return bool(results.rule_results.cds_by_cluster or results.rule_results.cdses_outside_clusters)
    if short == "nrps_pks_domains":
        return bool(results.cds_results)
    return len(results) > 0


def results_file_schema_guard(ctx, case, record, full) -> None:
    from antismash.common import serialiser
    current = serialiser.AntismashResults.SCHEMA_VERSION
    compatible = set(serialiser.AntismashResults.COMPATIBLE_SCHEMAS[current])
    path = os.path.join(S.tmp, "whole.json")
    try:
        serialiser.AntismashResults("input.gbk", [record], [dict(full)], "verif").write_to_file(path)
        with open(path, encoding="utf-8") as handle:
            document = AJ.loads(handle.read())
    except Exception as err:  # pylint: disable=broad-except
        ctx.violate("results-file-write-crash", {"exception": type(err).__name__, "message": str(err)[:200]}, case)
        return
    for schema in (current, current + 1, current + 7, 0, -1, *sorted(compatible)):
        ctx.count("guard:results-file:schema")
        document["schema"] = schema
        with open(path, "w", encoding="utf-8") as handle:
            handle.write(AJ.dumps(document))
        try:
            serialiser.AntismashResults.from_file(path)
            accepted = True
        except ValueError:
            accepted = False
        except Exception as err:  # pylint: disable=broad-except
            ctx.violate("results-file-load-crash", {"schema": schema, "current": current, "exception": type(err).__name__,
                                                    "message": str(err)[:200]}, case)
            return
        should = schema == current or schema in compatible
        if accepted and not should:
            ctx.violate("results-file-of-another-schema-refused", {"schema": schema, "current": current,
                                                                   "compatible": sorted(compatible)}, case)
        elif not accepted and should:
            ctx.violate("results-file-of-this-schema-loads", {"schema": schema, "current": current}, case)


def run_case(ctx, case) -> None:
    S.case = case
    facts0 = case_facts(case)
    pairs = [multipliers_of(case)]
    if case["opts"]["taxon"] == "fungi":
        cutoff, neighbourhood = pairs[0]
        pairs += [(cutoff * 2, neighbourhood), (cutoff, neighbourhood * 2)]
    if not install_rulesets(case, pairs):
        ctx.count("skipped:ruleset-rejected")
        return
    record_a = C.build_record(case)
    apply_options(case, record_a)

    # ---- the run from scratch -----------------------------------------------------------------
    S.captured = None
    try:
        full_a = run_flow(case, record_a)
    except Exception as err:  # pylint: disable=broad-except
        # a run that the pipeline refuses from scratch (input error, refused layout) is not a reuse question
        # (C03/C05/C14 own those); a crash of another kind leaves the reuse property undecided for every case,
        # so it is reported rather than skipped
        from antismash.common.errors import AntismashInputError
        if not isinstance(err, (AntismashInputError, ValueError)):
            ctx.violate("scratch-run-crash", {"exception": type(err).__name__, "message": str(err)[:200],
                                              "where": traceback.format_exc(limit=-3)[-400:]}, case)
            return
        ctx.count("skipped:scratch-run-failed:" + type(err).__name__)
        ctx.case(("case", case), nontrivial=False)
        return
    results_a = {SHORT[name]: res for name, res in full_a.items() if res is not None and not isinstance(res, dict)}
    ok, saved_a = ctx.guard("save-crash", case, save, full_a)
    if not ok:
        return
    ok, view_a = ctx.guard("record-view-crash", case, record_view, record_a)
    if not ok:
        return
    filled = [short for short, res in results_a.items() if nonempty(short, res)]
    for short in filled:
        ctx.count("nonempty:" + short)
    shapes_of(ctx, case, record_a, results_a)
    ctx.case(("case", case), nontrivial=len(filled) >= 3,
             sample={"opts": case["opts"], "L": case["world"]["L"], "circular": case["world"]["circular"],
                     "genes": {k: v["loc"] for k, v in case["world"]["genes"].items()},
                     "rules": [C.W.rule_text(r) for r in case["world"]["rules"]], "levels": case["levels"],
                     "sideload": case["sideload"], "domains": case["domains"],
                     "saved_modules": sorted(saved_a)} if len(filled) >= 4 else None)

    # ---- the results file as a whole: one saved under another schema is refused, whichever way the schema differs
    if zlib.crc32(repr(case["opts"]).encode()) % 8 == 0:
        results_file_schema_guard(ctx, case, record_a, full_a)

    # ---- two reload cycles ---------------------------------------------------------------------
    saved_prev, view_prev, results_prev = saved_a, view_a, results_a
    for cycle in (1, 2):
        record_b = C.build_record(case)
        apply_options(case, record_b)
        previous = {MODULES[short].__name__: AJ.loads(text) for short, text in saved_prev.items()}
        S.captured = {}
        scans_before = S.scans
        try:
            full_b = run_flow(case, record_b, previous)
        except Exception as err:  # pylint: disable=broad-except
            facts = dict(facts0, cycle=cycle, **crash_module(err))
            ctx.violate("reload-crash", facts, case)
            S.captured = None
            return
        captured, S.captured = S.captured, None
        results_b = {SHORT[name]: res for name, res in full_b.items() if res is not None and not isinstance(res, dict)}
        ok, saved_b = ctx.guard("save-crash", case, save, full_b)
        if not ok:
            return
        for short, text in saved_prev.items():
            facts = dict(facts0, module=short, cycle=cycle)
            ctx.count("op:reused-object")
            state = captured.get(short)
            if state is None:
                ctx.violate("reload-not-attempted", facts, case)
                continue
            if state[1] is None:
                ctx.violate("unchanged-results-discarded", facts, case)
                continue
            if results_b.get(short) is not state[1]:
                ctx.violate("reload-recomputed-instead-of-reused", facts, case)
                continue
            ctx.count("op:bytes:" + short)
            if cycle == 2:
                ctx.count("op:second-cycle")
            if saved_b.get(short) != text:
                where = first_difference(text, saved_b[short]) if short in saved_b else {"difference": "not saved"}
                ctx.violate("saved-text-identical" if cycle == 1 else "second-cycle-identical",
                            dict(facts, **where), case)
        if set(saved_b) - set(saved_prev):
            ctx.violate("reload-adds-module-results", dict(facts0, modules=sorted(set(saved_b) - set(saved_prev))), case)
        if S.scans != scans_before:
            ctx.violate("reload-ran-hmmscan", dict(facts0, cycle=cycle), case)
        # what the results added to the record
        ok, view_b = ctx.guard("record-view-crash", case, record_view, record_b)
        if not ok:
            return
        ctx.count("op:record-features")
        if sorted(view_b) != sorted(view_prev):
            ctx.violate("record-features-identical", dict(facts0, cycle=cycle, **diff_views(view_prev, view_b)), case)
        elif view_b != view_prev:
            ctx.count("note:feature-order-differs")
        if cycle == 1:
            ctx.count("note:derived-areas-compared")
            if derived_view(record_a) != derived_view(record_b):
                ctx.count("note:derived-areas-differ(candidates/regions over same-coordinate protoclusters)")
        for short in DETECTION:
            if short in results_prev and short in results_b:
                ctx.count("op:predicted-areas")
                before, after = areas_view(results_prev[short]), areas_view(results_b[short])
                if before != after:
                    ctx.violate("predicted-areas-identical", dict(facts0, module=short, cycle=cycle,
                                                                  **diff_views(before, after)), case)
        for short in saved_prev:
            if cycle == 1 and short in results_prev and short in results_b:
                ctx.count("op:object-state")
                ok, states = ctx.guard("state-crash", case, lambda x, y: (content_of(x), content_of(y)), results_prev[short],
                                       results_b[short])
                if ok and states[0] != states[1]:
                    ctx.violate("results-object-state-identical",
                                dict(facts0, module=short, cycle=cycle, attribute=state_difference(*states)), case)
        saved_prev, view_prev, results_prev = saved_b, view_b, results_b
        record_last = record_b

    # ---- a third cycle the way main.read_data reuses results: the annotated record itself has its antiSMASH
    #      annotations stripped and the saved results are regenerated onto it ---------------------------------
    record_c = record_last
    ok, _ = ctx.guard("strip-crash", case, record_c.strip_antismash_annotations)
    if ok:
        previous = {MODULES[short].__name__: AJ.loads(text) for short, text in saved_prev.items()}
        S.captured = {}
        try:
            run_flow(case, record_c, previous)
        except Exception as err:  # pylint: disable=broad-except
            ctx.violate("reload-crash", dict(facts0, cycle="strip-and-reuse", **crash_module(err)), case)
            S.captured = None
            return
        S.captured = None
        ok, view_c = ctx.guard("record-view-crash", case, record_view, record_c)
        if ok:
            ctx.count("op:record-features-after-strip-and-reuse")
            if sorted(view_c) != sorted(view_prev):
                ctx.violate("record-features-identical", dict(facts0, cycle="strip-and-reuse",
                                                              **diff_views(view_prev, view_c)), case)

    # ---- a reuse run in which one module is not switched on (the option that enables it is not repeated): its saved
    #      results are still regenerated and carried into the new results -------------------------------------
    off = ("full_hmmer", "tta", "sideloader", "cluster_hmmer")[zlib.crc32(repr(case["opts"]).encode()) % 4]
    if off in saved_prev:
        record_d = C.build_record(case)
        apply_options(case, record_d, all_enabled_modules=[mod for short, mod in MODULES.items() if short != off])
        previous = {MODULES[short].__name__: AJ.loads(text) for short, text in saved_prev.items()}
        try:
            full_d = run_flow(case, record_d, previous)
        except Exception as err:  # pylint: disable=broad-except
            ctx.violate("reload-crash", dict(facts0, cycle="module-not-enabled", **crash_module(err)), case)
            full_d = None
        if full_d is not None:
            ok, saved_d = ctx.guard("save-crash", case, save, full_d)
            # (only where the module itself takes its saved results back under these options: TTA, for one, discards
            # them when the GC content sits on the threshold and then has to run again)
            probe = C.build_record(case)
            try:
                taken_back = MODULES[off].regenerate_previous_results(AJ.loads(saved_prev[off]), probe, get_config())
            except Exception:  # pylint: disable=broad-except
                taken_back = None
            if ok and taken_back is None:
                ctx.count("note:module-not-enabled-and-results-not-taken-back")
            elif ok:
                ctx.count("op:module-not-enabled-on-reuse")
                if saved_d.get(off) != saved_prev[off]:
                    ctx.violate("saved-results-of-a-module-not-enabled-are-carried-over",
                                dict(facts0, module=off, present=off in saved_d), case)
        apply_options(case, record_d)

    # ---- guards --------------------------------------------------------------------------------
    check_guards(ctx, case, saved_a, record_last, facts0)


def crash_module(err) -> dict:
    frames = traceback.extract_tb(err.__traceback__)
    where = [f"{os.path.basename(f.filename)}:{f.name}" for f in frames[-4:]]
    module = ""
    for frame in frames:
        for short, mod in MODULES.items():
            if os.path.dirname(mod.__file__) in frame.filename:
                module = short
    return {"exception": type(err).__name__, "message": str(err)[:160], "where": where, "module": module}


# ---------------------------------------------------------------------------------------------
# guards
# ---------------------------------------------------------------------------------------------

def attempt(short: str, data: dict, record):
    """ -> (outcome, object): what the module does with saved results under the current options.
        outcome: 'none' | 'raised:<Type>' | 'rerun' (run_on_record did not hand the regenerated object on) | 'accepted' """
    module = MODULES[short]
    options = get_config()
    try:
        regenerated = module.regenerate_previous_results(data, record, options)
    except Exception as err:  # pylint: disable=broad-except
        return "raised:" + type(err).__name__, err
    if regenerated is None:
        return "none", None
    try:
        S.domains, S.motifs = C.domain_hits(S.case)
        final = module.run_on_record(record, regenerated, options)
    except Exception as err:  # pylint: disable=broad-except
        return "raised:" + type(err).__name__, err
    if final is not regenerated:
        return "rerun", final
    return "accepted", regenerated


def expect_refused(ctx, case, facts0, short, field, data, record) -> None:
    ctx.count(f"guard:{short}:{field}")
    outcome, _ = attempt(short, data, record)
    ctx.count(f"guard-outcome:{short}:{field}:{outcome}")
    if outcome == "accepted":
        ctx.violate("changed-guard-refused", dict(facts0, module=short, guard=field), case)


OTHER_IDS = ("another_record", C.RECORD_ID + "0", C.RECORD_ID[:-1])


def fresh(case, record_id=C.RECORD_ID):
    return C.build_record(case, record_id)


def check_guards(ctx, case, saved: dict, record_with_regions, facts0) -> None:
    # an unrelated identifier, one that the saved identifier is a proper prefix of, and a proper prefix of the saved one
    # (contig_1 / contig_10: equality of identifiers is what the guards have to test, not containment)
    other_id = OTHER_IDS[ctx.evaluations % len(OTHER_IDS)]
    ctx.count("shape:other-record-id:" + ("unrelated" if other_id == "another_record" else
                                          "extends-saved" if other_id.startswith(C.RECORD_ID) else "prefix-of-saved"))

    def data_of(short):
        return AJ.loads(saved[short])

    # every guard starts from the unchanged options
    def reset():
        apply_options(case, record_with_regions)

    reset()
    # ---- sideloader ----
    if "sideloader" in saved:
        data = data_of("sideloader")
        data["schema_version"] += 1
        expect_refused(ctx, case, facts0, "sideloader", "schema_version", data, fresh(case))
        data = data_of("sideloader")
        data["record_id"] = other_id
        expect_refused(ctx, case, facts0, "sideloader", "json-record_id", data, fresh(case))
        expect_refused(ctx, case, facts0, "sideloader", "record-id", data_of("sideloader"), fresh(case, other_id))

    # ---- nrps_pks_domains ----
    if "nrps_pks_domains" in saved:
        data = data_of("nrps_pks_domains")
        data["schema_version"] += 1
        expect_refused(ctx, case, facts0, "nrps_pks_domains", "schema_version", data, fresh(case))
        data = data_of("nrps_pks_domains")
        data["record_id"] = other_id
        expect_refused(ctx, case, facts0, "nrps_pks_domains", "json-record_id", data, fresh(case))
        expect_refused(ctx, case, facts0, "nrps_pks_domains", "record-id", data_of("nrps_pks_domains"),
                       fresh(case, other_id))

    # ---- hmm_detection ----
    if "hmm_detection" in saved:
        short = "hmm_detection"
        data = data_of(short)
        data["schema_version"] += 1
        expect_refused(ctx, case, facts0, short, "schema_version", data, fresh(case))
        data = data_of(short)
        data["rule_results"]["schema_version"] += 1
        expect_refused(ctx, case, facts0, short, "rule_results.schema_version", data, fresh(case))
        data = data_of(short)
        data["record_id"] = other_id
        expect_refused(ctx, case, facts0, short, "json-record_id", data, fresh(case))
        expect_refused(ctx, case, facts0, short, "record-id", data_of(short), fresh(case, other_id))
        # the rule set on the antiSMASH side differs from the saved one
        data = data_of(short)
        data["enabled_types"] = data["enabled_types"] + ["brand_new_rule"]
        expect_refused(ctx, case, facts0, short, "enabled_types", data, fresh(case))
        data = data_of(short)
        if len(data["enabled_types"]) > 1:
            data["enabled_types"] = data["enabled_types"][1:]
            expect_refused(ctx, case, facts0, short, "enabled_types", data, fresh(case))
        # another strictness
        names_now = {r["name"] for r in C.level_rules(case, case["opts"]["strictness"])}
        # the same reload under unchanged options, on the same footing (protoclusters not yet placed in a record)
        _, reference = attempt(short, data_of(short), fresh(case))
        reference_text = AJ.dumps(reference.to_json()) if hasattr(reference, "to_json") else None
        for level in C.LEVELS:
            if level == case["opts"]["strictness"]:
                continue
            apply_options(case, record_with_regions, hmmdetection_strictness=level)
            names_then = {r["name"] for r in C.level_rules(case, level)}
            ctx.count(f"guard:{short}:strictness")
            outcome, obj = attempt(short, data_of(short), fresh(case))
            if names_then != names_now:
                ctx.count(f"guard-outcome:{short}:strictness:{outcome}")
                if outcome == "accepted":
                    ctx.violate("changed-guard-refused", dict(facts0, module=short, guard="strictness",
                                                              rule_names_differ=True), case)
            else:
                ctx.count(f"guard-outcome:{short}:strictness-same-rules:{outcome}")
                if outcome == "accepted" and reference_text is not None and AJ.dumps(obj.to_json()) != reference_text:
                    ctx.violate("reuse-under-other-strictness-keeps-text",
                                dict(facts0, module=short, **first_difference(reference_text, AJ.dumps(obj.to_json()))), case)
        reset()
        # multipliers (only meaningful for fungal runs; the taxon itself is taken from the results file by main)
        if case["opts"]["taxon"] == "fungi":
            cutoff, neighbourhood = multipliers_of(case)
            apply_options(case, record_with_regions, hmmdetection_fungal_cutoff_multiplier=cutoff * 2)
            expect_refused(ctx, case, facts0, short, "cutoff-multiplier", data_of(short), fresh(case))
            apply_options(case, record_with_regions, hmmdetection_fungal_neighbourhood_multiplier=neighbourhood * 2)
            expect_refused(ctx, case, facts0, short, "neighbourhood-multiplier", data_of(short), fresh(case))
            reset()
            data = data_of(short)
            data["rule_results"]["multipliers"]["cutoff"] *= 2
            expect_refused(ctx, case, facts0, short, "cutoff-multiplier", data, fresh(case))
            data = data_of(short)
            data["rule_results"]["multipliers"]["neighbourhood"] *= 2
            expect_refused(ctx, case, facts0, short, "neighbourhood-multiplier", data, fresh(case))

    # ---- hmmer based ----
    for short in ("full_hmmer", "cluster_hmmer"):
        if short not in saved:
            continue
        module = MODULES[short]
        data = data_of(short)
        data["schema"] += 1
        expect_refused(ctx, case, facts0, short, "schema", data, record_with_regions)
        data = data_of(short)
        data["record id"] = other_id
        expect_refused(ctx, case, facts0, short, "json-record-id", data, record_with_regions)
        expect_refused(ctx, case, facts0, short, "record-id", data_of(short), fresh(case, other_id))
        for key, value in (("min score", module.MIN_SCORE + 5.0), ("max evalue", module.MAX_EVALUE / 1000)):
            data = data_of(short)
            data[key] = value
            expect_refused(ctx, case, facts0, short, "stricter-saved", data, record_with_regions)
        # another database version requested
        apply_options(case, record_with_regions, **{f"{short.replace('_', '')}_pfamdb_version": C.PFAM_VERSIONS[0]})
        expect_refused(ctx, case, facts0, short, "database", data_of(short), record_with_regions)
        reset()
        # saved under more lenient thresholds: what a run with lenient thresholds would have saved
        check_lenient_hmmer(ctx, case, facts0, short, saved[short], record_with_regions)

    # ---- tta ----
    if "tta" in saved:
        short = "tta"
        data = data_of(short)
        data["schema_version"] += 1
        expect_refused(ctx, case, facts0, short, "schema_version", data, record_with_regions)
        data = data_of(short)
        data["record_id"] = other_id
        expect_refused(ctx, case, facts0, short, "json-record_id", data, record_with_regions)
        other = fresh(case, other_id)
        expect_refused(ctx, case, facts0, short, "record-id", data_of(short), other)
        gc = record_with_regions.get_gc_content()
        for threshold in sorted({0.0, gc, max(0.0, gc - 0.01), min(1.0, gc + 0.01), 1.0}):
            apply_options(case, record_with_regions, tta_threshold=threshold)
            if get_config().tta_threshold == AJ.loads(saved[short])["threshold"]:
                continue
            ctx.count("guard:tta:threshold")
            outcome, obj = attempt(short, data_of(short), record_with_regions)
            ctx.count(f"guard-outcome:tta:threshold:{outcome}")
            if outcome != "accepted":
                continue
            expected = AJ.dumps(TTA.detect(record_with_regions, get_config()).to_json())
            got = AJ.dumps(obj.to_json())
            if got != expected:
                old = AJ.loads(saved[short])
                ctx.violate("tta-other-threshold-equals-fresh-run",
                            dict(facts0, module=short, saved_skipped=old["threshold"] > old["gc_content"],
                                 now_skipped=threshold > gc, threshold_equals_gc=threshold == gc,
                                 **first_difference(expected, got)), case)
        reset()


def check_lenient_hmmer(ctx, case, facts0, short, saved_text, record) -> None:
    """ the saved results plus every generated hit that only more lenient thresholds (E < 1, score > -10) let through
        and that overlaps no other generated hit of its gene (so the overlap filter, which runs before saving, would
        have kept it next to the others): reloading must give exactly the results of a run under the module's own
        thresholds, i.e. the saved text """
    module = MODULES[short]
    saved = AJ.loads(saved_text)
    strict_hits = [HM.HmmerHit(**h) for h in saved["hits"]]
    names = {cds.get_name() for cds in (record.get_cds_features() if short == "full_hmmer"
                                        else record.get_cds_features_within_regions())}
    scan = []
    for name in sorted(names):
        hits = case["pfam"].get(name, [])
        alone = [h for h in hits if not any(o is not h and o[1] < h[2] and h[1] < o[2] for o in hits)]
        hsps = [SimpleNamespace(bitscore=float(score), evalue=float(evalue), query_id=name, query_start=start,
                                query_end=end, hit_id=profile, hit_description=f"generated {profile}")
                for profile, start, end, score, evalue in alone]
        if hsps:
            scan.append(SimpleNamespace(id=name, hsps=hsps))
    lenient_hits = HM.build_hits(record, scan, -10.0, 1.0, saved["database"])
    extra = [h for h in lenient_hits if h not in strict_hits]
    if not extra:
        ctx.count(f"note:no-extra-lenient-hits:{short}")
    lenient = HM.HmmerResults(record.id, 1.0, -10.0, saved["database"], saved["tool"], strict_hits + extra)
    ctx.count(f"guard:{short}:lenient-saved")
    outcome, obj = attempt(short, AJ.loads(AJ.dumps(lenient.to_json())), record)
    ctx.count(f"guard-outcome:{short}:lenient-saved:{outcome}")
    if outcome != "accepted":
        return
    facts = dict(facts0, module=short, guard="lenient-saved")
    if obj.score != module.MIN_SCORE or obj.evalue != module.MAX_EVALUE:
        ctx.violate("hmmer-refilter-records-new-thresholds", facts, case)
    ctx.count(f"op:lenient-equals-fresh:{short}")
    if AJ.dumps(obj.to_json()) != saved_text:
        # run_hmmer keeps hits with score > min and evalue < max
        bad = [h for h in obj.hits if not (h.score > module.MIN_SCORE and h.evalue < module.MAX_EVALUE)]
        ctx.violate("hmmer-refilter-equals-fresh-run",
                    dict(facts, kept_hit_on_score_boundary=any(h.score == module.MIN_SCORE for h in bad),
                         kept_hit_on_evalue_boundary=any(h.evalue == module.MAX_EVALUE for h in bad),
                         kept_hit_beyond_boundary=any(h.score < module.MIN_SCORE or h.evalue > module.MAX_EVALUE
                                                      for h in bad),
                         only_boundary_hits_differ=bool(bad) and [h for h in obj.hits if h not in bad] == strict_hits),
                    case)


# ---------------------------------------------------------------------------------------------
# known findings (classifiers keyed on mechanism)
# ---------------------------------------------------------------------------------------------

@findings.classifier("c11_definition_domains_saved_in_set_order")
def _c11_definition_domains_saved_in_set_order(clause, facts):
    """ CDSResults.to_json writes each definition_domains set with list(set) and from_json rebuilds the set from that
        list: two sets with the same members iterate differently when members collide in the hash table, so the text
        changes (and flips back) from cycle to cycle.
        Must not hide: any other field of the saved hmm_detection text changing, members changing, other modules. """
    return clause in ("saved-text-identical", "second-cycle-identical") and facts.get("module") == "hmm_detection" \
        and str(facts.get("json_path", "")).endswith("/definition_domains") \
        and facts.get("difference") == "same elements, other order"


@findings.classifier("c11_core_gene_functions_added_in_set_order")
def _c11_core_gene_functions_added_in_set_order(clause, facts):
    """ CDSResults.annotate adds one CORE gene function per member of the same sets, in set iteration order, so the
        reloaded record lists the same gene functions of a CDS in another order.
        Must not hide: a gene function missing, added or changed; any other qualifier or feature type differing. """
    return clause == "record-features-identical" and facts.get("feature_types") == ["CDS"] \
        and facts.get("qualifiers_differing") == ["gene_functions"] and facts.get("only_value_order_differs") is True


@findings.classifier("c11_hmmer_refilter_keeps_threshold_hits")
def _c11_hmmer_refilter_keeps_threshold_hits(clause, facts):
    """ HmmerResults.refilter keeps hits with score >= min and evalue <= max while build_hits (a run) keeps only
        score > min and evalue < max: results saved under more lenient thresholds keep hits lying exactly on the new
        thresholds that a run under those thresholds would not report.
        Must not hide: kept hits beyond a threshold, lost hits, any other difference to the fresh run. """
    return clause == "hmmer-refilter-equals-fresh-run" and facts.get("only_boundary_hits_differ") is True \
        and facts.get("kept_hit_beyond_boundary") is False \
        and (facts.get("kept_hit_on_score_boundary") is True or facts.get("kept_hit_on_evalue_boundary") is True)


# ---------------------------------------------------------------------------------------------
# entry points
# ---------------------------------------------------------------------------------------------

def reuse_pairing_glue(ctx, rng) -> None:
    """ a results file of several records is reused: main._run_antismash pre-processes the records it read and then
        pairs them with their saved results by position. Whatever --limit says, every record must still meet its own
        results afterwards. """
    from Bio.Seq import Seq
    from antismash.common import record_processing
    from antismash.common.secmet import Record
    from antismash.support import genefinding
    keep = {key: get_config().get(key) for key in ("reuse_results", "limit", "minlength", "limit_to_record")}
    try:
        for count in (2, 3, 4):
            lengths = rng.sample([400, 1200, 800, 600, 1500, 1000], count)
            for limit in (-1, count + 1, count, count - 1, 1):
                records = [Record(Seq("ACGT" * (length // 4)), id=f"rec_{i}", name=f"rec_{i}",
                                  annotations={"molecule_type": "DNA", "topology": "linear"})
                           for i, length in enumerate(lengths)]
                saved = [{"record_id": record.id} for record in records]
                case = {"glue": "reuse-pairing", "lengths": lengths, "limit": limit}
                update_config({"reuse_results": "previous.json", "limit": limit, "minlength": 0, "limit_to_record": ""})
                ctx.count("glue:reuse-with-limit")
                ok, processed = ctx.guard("pre-processing-crash", case, record_processing.pre_process_sequences,
                                          records, get_config(), genefinding)
                if not ok:
                    continue
                pairs = [(record.id, results["record_id"]) for record, results in zip(processed, saved)]
                if len(processed) != len(saved) or any(a != b for a, b in pairs):
                    ctx.violate("reused-results-meet-their-own-record",
                                {"lengths": lengths, "limit": limit, "pairs": pairs}, case)
                analysed = [record.id for record in processed if not record.skip]
                expected = count if limit == -1 else min(limit, count)
                if len(analysed) != expected:
                    ctx.violate("limit-leaves-the-largest-records",
                                {"lengths": lengths, "limit": limit, "analysed": analysed}, case)
    finally:
        update_config({key: value for key, value in keep.items()})


def run(ctx):
    setup(ctx)
    try:
        if ctx.worker == 0:
            ctx.guard("harness-or-crash", {"glue": "reuse-pairing"}, reuse_pairing_glue, ctx, ctx.rng("glue"))
        rng = ctx.rng("cases")
        for _ in ctx.cases(ctx.quota(260, 50000), every=4):
            case = C.gen_case(rng)
            ctx.guard("harness-or-crash", case, run_case, ctx, copy.deepcopy(case))
    finally:
        teardown()


def replay(ctx, case):
    setup(ctx)
    try:
        if "glue" in case:
            reuse_pairing_glue(ctx, ctx.rng("glue"))
            return
        run_case(ctx, case)
    finally:
        teardown()
