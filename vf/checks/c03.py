"""C03 Protoclusters are the maximal cutoff-chains of a rule's anchoring genes.

The real detect_protoclusters_and_signatures runs on generated worlds (DynamicProfile hits, rules
rendered to text and parsed by the real parser). Function monitors capture the stage values
(apply_cluster_rules -> anchor sets, apply_extenders in/out, remove_redundant_protoclusters in/out,
merge_over_origin in/out); the oracle recomputes anchors (reference evaluator, true ring distance),
chains (connected components of distance < cutoff), cores (smallest covering span), extents
(core +- neighbourhood, clipped / wrapped), extender walks and superior removal on the ring model.
The C01 detect monitor, the C04 location monitors and the C08 lookup monitor are active during the
pipeline runs, so their oracles see every internal call as well.
"""
from __future__ import annotations

import zlib

from antismash.common.hmm_rule_parser import cluster_prediction as CP

from vf import findings, instrument
from vf.checks import c01, c04, c08
from vf.gen import locs as G
from vf.gen import worlds as W
from vf.models import ring
from vf.models import rules_ref as R

PROPERTY = "C03"
LEVEL = "exploration"
PARALLEL = True
RULE = ("worlds: record length 1.5-60 kb, linear/circular, 2-12 genes on a 100 bp grid with gaps drawn from "
        "{0, 1, cutoff-1, cutoff, cutoff+1, cutoff/2}, both strands, origin-spanning genes, pairs in range only across "
        "the origin; 1-5 rules with cutoffs from 1-3 distinct values in any order (incl. same cutoff first and last), "
        "neighbourhoods 1-100 kb, SUPERIORS chains, EXTENDERS (identifier and cds), occasional multipliers. "
        "Non-trivial: some rule has >= 2 anchoring genes with a pair at distance within cutoff+-1 or in range only "
        "across the origin; distinct by world.")
ASSUMPTIONS = [
    "Anchoring genes reported by the code may include 'ancillary' genes (carrying one of the rule's profiles within "
    "cutoff of a satisfying gene); the oracle requires reference anchors <= reported <= reference + such genes.",
    "When a core covers the ring so that all gaps between consecutive members are < cutoff, or core + 2*neighbourhood "
    ">= record length, 'smallest span' / 'extended on both sides' are not defined by the statement: only "
    "containment, well-formedness and length >= L-2 are required (counted as saturated).",
    "SUPERIORS: 'covers its core genes' is read on the superior's core; removal on partial cover is a deviation.",
]
REQUIRED = ["op:anchors", "op:chains", "op:core-span", "op:extent", "op:extenders", "op:superiors",
            "monitor:DetectionRule.detect", "monitor:connect_locations", "monitor:Record.get_cds_features_within_location",
            "shape:chain-across-origin", "shape:boundary-distance", "shape:clipped-extent", "shape:wrapped-extent",
            "shape:superior-removal", "shape:extender-extension",
            "history:ruleset-used-on-an-earlier-small-circular-record", "class:gene-with-hmmer-and-dynamic-hits",
            "class:extender-chain-over-three-groups"]


class Capture:
    def __init__(self):
        self.reset()

    def reset(self):
        self.anchors = None
        self.domains = None
        self.pre_ext = None
        self.post_ext = None
        self.pre_removal = None
        self.post_removal = None
        self.final = None


CAP = Capture()


def install_stage_monitors(ctx):
    def post_rules(a, k, r):
        CAP.domains = {cds: {rule: set(v) for rule, v in d.items()} for cds, d in r[0].items()}
        CAP.anchors = {rule: set(v) for rule, v in r[1].items()}

    def post_ext(a, k, r):
        CAP.pre_ext = list(a[0])
        CAP.post_ext = list(r)

    def post_removal(a, k, r):
        CAP.pre_removal = list(a[0])
        CAP.post_removal = list(r)

    def post_merge(a, k, r):
        CAP.final = list(r)
    instrument.monitor_function(CP, "apply_cluster_rules", post_rules, ctx)
    instrument.monitor_function(CP, "apply_extenders", post_ext, ctx)
    instrument.monitor_function(CP, "remove_redundant_protoclusters", post_removal, ctx)
    instrument.monitor_function(CP, "merge_over_origin", post_merge, ctx)


def install_all(ctx):
    install_stage_monitors(ctx)
    c01.install_detect_monitor(ctx)
    c04.install_monitors(ctx)
    c08.install_lookup_monitor(ctx)


def components(names, locs, cutoff, wrap):
    names = sorted(names)
    parent = {n: n for n in names}

    def find(x):
        while parent[x] != x:
            parent[x] = parent[parent[x]]
            x = parent[x]
        return x
    for i, a in enumerate(names):
        for b in names[i + 1:]:
            if ring.distance(locs[a], locs[b], wrap) < cutoff:
                parent[find(a)] = find(b)
    comps = {}
    for n in names:
        comps.setdefault(find(n), set()).add(n)
    return [frozenset(c) for c in comps.values()]


def expected_core(members, locs, cutoff, length, wrap):
    """ (intervals, saturated) """
    spans = [iv for m in members for iv in ring.span(locs[m], wrap)]
    if not wrap:
        return [(min(s for s, _ in spans), max(e for _, e in spans))], False
    norm = ring.normalise(spans)
    cands = ring.cover_candidates(spans, length)
    start, arc_len = cands[0]
    gap = length - arc_len
    if arc_len >= length or (len(members) > 1 and gap < cutoff) or len(cands) > 1 or 2 * arc_len >= length:
        # no covering arc shorter than half the record: connect_locations' contract (C04) leaves the choice open
        return ring.arc_to_intervals(start, arc_len, length), True
    del norm
    return ring.normalise(ring.arc_to_intervals(start, arc_len, length)), False


def expected_extent(core_loc, nb, length, circular):
    fwd = ring.forward_parts(core_loc)
    core_len = ring.total_len(ring.span(core_loc, length if circular else None))
    if circular and core_len + 2 * nb >= length:
        return None
    added = ring.extend_intervals(fwd[0], fwd[-1], nb, length, circular)
    return ring.normalise(list(ring.span(core_loc, length if circular else None)) + added)


def extender_walk(core_genes_first, core_genes_last, core_loc, genes_sorted, locs, hits, rule, cutoff, wrap, length):
    """ reference walk (EXTENDERS clause): going outwards from the core in both directions along the gene order,
        skipping genes inside the core, a gene is admitted when it satisfies the extender condition on its own
        hits; the walk in a direction ends at the first gene further than the cutoff from the last admitted gene
        (initially the first / last core gene) """
    ext = rule["extenders"]
    admitted = []

    def satisfied(g):
        return R.evaluate(ext, g, hits, {g: []}, True)
    # ring order by the start of each gene's span (a gene bridging the origin starts at its pre-origin part)
    order = sorted(genes_sorted, key=lambda g: (ring.span(locs[g], wrap)[0][0], len(locs[g])))
    n = len(order)
    core_ivs = ring.parts_of(core_loc)

    def in_core(g):
        return ring.covers(core_ivs, ring.parts_of(locs[g]))
    idx = order.index(core_genes_first)
    backwards = list(reversed(order[:idx]))
    forwards = list(order[idx:])
    if wrap:
        backwards += list(reversed(order[idx + 1:]))
        forwards += list(order[:idx])
    # the distance is measured to everything gathered so far (the hull of core plus admitted genes): an earlier
    # admitted gene can reach further than the last one. As in the code, the backward walk comes first and the
    # forward walk continues from what it gathered.
    def hull(ivs):
        if not wrap:
            return [(min(s for s, _ in ivs), max(e for _, e in ivs))]
        start, arc_len = ring.shortest_cover(ivs, length)
        return ring.normalise(ring.arc_to_intervals(start, arc_len, length))
    gathered = hull(list(ring.span(core_loc, wrap)))
    for sequence in (backwards, forwards):
        for g in sequence:
            gene_ivs = list(ring.span(locs[g], wrap))
            if ring.covers(gathered, gene_ivs):
                continue
            gap = ring.ring_gap_intervals(gathered, gene_ivs, wrap) if wrap else ring.line_gap_intervals(gathered, gene_ivs)
            if gap > cutoff:
                break
            if satisfied(g):
                admitted.append(g)
                gathered = hull(gathered + gene_ivs)
    return admitted


def _only_ids_and_minimum(ast) -> bool:
    kind = ast[0]
    if kind in ("id", "min"):
        return True
    if kind in ("and", "or"):
        return all(_only_ids_and_minimum(sub) for sub in ast[1])
    return False


def check_world(ctx, world, results):
    length, circular = world["L"], world["circular"]
    wrap = length if circular else None
    locs = {g: G.from_case(v["loc"]) for g, v in world["genes"].items()}
    hits = world["hits"]
    mult = world.get("multipliers", [1.0, 1.0])
    shapes = set()
    final = CAP.final or []
    removed = [c for c in (CAP.pre_removal or []) if not any(c is k for k in (CAP.post_removal or []))]
    nontrivial = False
    for rule in world["rules"]:
        name = rule["name"]
        cutoff = int(rule["cutoff_kb"] * 1000 * mult[0])
        nb = int(rule["nb_kb"] * 1000 * mult[1])
        ast = rule["ast"]
        facts0 = {"rule": name, "cutoff": cutoff, "neighbourhood": nb, "circular": circular, "L": length,
                  "n_rules": len(world["rules"]), "cutoffs_in_order": [r["cutoff_kb"] for r in world["rules"]]}
        # ---- (a) anchors ------------------------------------------------------
        ctx.count("op:anchors")
        got = set((CAP.anchors or {}).get(name, set()))
        nearby = {g: [o for o in locs if o != g and ring.distance(locs[g], locs[o], wrap) < cutoff] for g in locs}
        ref = {g for g in hits if R.anchors(ast, g, hits, nearby)}
        profs = R.profiles(ast)
        for g in sorted(ref - got):
            across = [o for o in nearby[g] if ring.distance(locs[g], locs[o], None) >= cutoff]
            ctx.violate("anchor-missing", dict(facts0, gene=g, gene_loc=str(locs[g]),
                                               neighbours_only_across_origin=sorted(across),
                                               gene_bridging=ring.is_bridging(locs[g])), world)
        for g in sorted(got - ref):
            carries = bool(set(hits.get(g, {})) & profs)
            near_anchor = any(ring.distance(locs[g], locs[a], wrap) < cutoff for a in ref)
            if not (carries and near_anchor):
                ctx.violate("anchor-spurious", dict(facts0, gene=g, carries_rule_profile=carries,
                                                    near_reference_anchor=near_anchor), world)
        # a gene at which the rule fires only thanks to the hits of one particular neighbour: that neighbour takes
        # part in the cluster (for conditions of identifiers and minimum() only - neighbours that satisfy a cds()
        # group, a minscore() or the absence demanded by a negation are not recorded as taking part)
        if _only_ids_and_minimum(ast):
            for g in sorted(ref & got):
                for o in nearby[g]:
                    if o in got or not set(hits.get(o, {})) & profs:
                        continue
                    ctx.count("op:necessary-helper")
                    without = {k: v for k, v in hits.items() if k != o}
                    if not R.anchors(ast, g, without, nearby):
                        ctx.violate("necessary-helper-gene-missing",
                                    dict(facts0, gene=g, helper=o, helper_hits=sorted(hits[o]),
                                         gene_listed_as_helper_of_an_earlier_gene=True), world)
        anchors = got
        if len(anchors) >= 2:
            names = sorted(anchors)
            for i, a in enumerate(names):
                for b in names[i + 1:]:
                    d = ring.distance(locs[a], locs[b], wrap)
                    if abs(d - cutoff) <= 1:
                        shapes.add("boundary-distance")
                        nontrivial = True
                    if wrap and d < cutoff <= ring.distance(locs[a], locs[b], None):
                        shapes.add("chain-across-origin")
                        nontrivial = True
        # ---- (b) chains and cores -------------------------------------------------
        mine_final = [c for c in final if c.product == name]
        mine_removed = [c for c in removed if c.product == name]
        comps = components(anchors, locs, cutoff, wrap)
        clusters = mine_final + mine_removed
        ctx.count("op:chains")
        members = []
        for c in clusters:
            core_ivs = ring.parts_of(c.core_location)
            members.append(frozenset(a for a in anchors if ring.covers(core_ivs, ring.parts_of(locs[a]))))
        has_ext = bool(rule.get("extenders"))
        any_bridging_anchor = any(ring.is_bridging(locs[a]) for a in anchors)
        facts_b = dict(facts0, anchors={a: str(locs[a]) for a in sorted(anchors)}, any_bridging_anchor=any_bridging_anchor,
                       cores=[str(c.core_location) for c in clusters], has_extenders=has_ext,
                       removed=len(mine_removed))
        for a in sorted(anchors):
            n_in = sum(1 for m in members if a in m)
            if n_in == 0:
                ctx.violate("anchor-in-no-core", dict(facts_b, gene=a), world)
            elif n_in > 1 and not mine_removed:
                ctx.violate("anchor-in-two-cores", dict(facts_b, gene=a), world)
        for c, m in zip(clusters, members):
            if not m:
                ctx.violate("core-without-anchor", dict(facts_b, core=str(c.core_location)), world)
        if not mine_removed and not has_ext:
            got_partition = set(m for m in members if m)
            want = set(comps)
            if got_partition != want:
                split = [sorted(comp) for comp in want if not any(comp <= m for m in got_partition)]
                merged = [sorted(m) for m in got_partition if not any(m <= comp for comp in want)]
                involves_bridging = any(ring.is_bridging(locs[g]) for grp in split + merged for g in grp)
                long_component = False
                if wrap:
                    for comp in want:
                        spans = [iv for g in comp for iv in ring.span(locs[g], wrap)]
                        if 2 * ring.cover_candidates(spans, length)[0][1] >= length:
                            long_component = True
                ctx.violate("cores-are-maximal-chains", dict(facts_b, unchained=split, overmerged=merged,
                                                             involves_bridging_anchor=involves_bridging,
                                                             some_chain_spans_half_the_record=long_component), world)
            else:
                for c, m in zip(clusters, members):
                    ctx.count("op:core-span")
                    exp, saturated = expected_core(m, locs, cutoff, length, wrap)
                    gotc = ring.normalise(ring.parts_of(c.core_location))
                    if saturated:
                        ctx.count("saturated:core")
                        if not ring.covers(gotc, [iv for g in m for iv in ring.span(locs[g], wrap)]):
                            ctx.violate("core-covers-members", dict(facts_b, core=str(c.core_location)), world)
                    elif gotc != ring.normalise(exp):
                        ctx.violate("core-is-smallest-span", dict(facts_b, core=str(c.core_location), expected=exp,
                                                                  members=sorted(m)), world)
        # ---- (c) extents ------------------------------------------------------------
        for c in clusters:
            ctx.count("op:extent")
            wf = ring.wellformed(c.location, length, span_like=True)
            facts_c = dict(facts0, core=str(c.core_location), extent=str(c.location),
                           core_len=ring.total_len(ring.span(c.core_location, wrap)))
            if wf:
                ctx.violate("extent-wellformed:" + wf, facts_c, world)
                continue
            exp = expected_extent(c.core_location, nb, length, circular)
            gote = ring.normalise(ring.parts_of(c.location))
            core_span = ring.span(c.core_location, wrap)
            if exp is None:
                ctx.count("saturated:extent")
                if not ring.covers(gote, core_span) or ring.total_len(gote) < length - 2:
                    ctx.violate("extent-saturated-bounds", dict(facts_c, extent_len=ring.total_len(gote),
                                                                core_len=ring.total_len(core_span)), world)
                continue
            if gote != exp:
                ctx.violate("extent-is-core-plus-neighbourhood", dict(facts_c, expected=exp), world)
            else:
                if not circular and (exp[0][0] == 0 or exp[-1][1] == length):
                    shapes.add("clipped-extent")
                if circular and len(c.location.parts) == 2:
                    shapes.add("wrapped-extent")
        # ---- (d) extenders --------------------------------------------------------------
        if has_ext and CAP.pre_ext is not None and CAP.post_ext is not None:
            genes_sorted = sorted(locs, key=lambda g: (0 if ring.is_bridging(locs[g]) else 1,
                                                       ring.span(locs[g], wrap)[0][0], len(locs[g])))
            for before, after in zip(CAP.pre_ext, CAP.post_ext):
                if before.product != name:
                    continue
                ctx.count("op:extenders")
                core_ivs = ring.parts_of(before.core_location)
                inside = [g for g in genes_sorted if ring.covers(core_ivs, ring.parts_of(locs[g]))]
                if not inside:
                    continue
                # first / last core gene along the core (for an origin-crossing core the pre-origin part comes first)
                if len(before.core_location.parts) > 1:
                    pre = [g for g in inside if ring.covers([core_ivs[0]], ring.parts_of(locs[g]))]
                    cross = [g for g in inside if ring.is_bridging(locs[g])]
                    post = [g for g in inside if g not in pre and g not in cross]
                    ordered = pre + cross + post
                else:
                    ordered = [g for g in inside if not ring.is_bridging(locs[g])] or inside
                admitted = extender_walk(ordered[0], ordered[-1], before.core_location, genes_sorted, locs, hits,
                                         rule, cutoff, wrap, length)
                spans = list(ring.span(before.core_location, wrap)) + [iv for g in admitted for iv in ring.span(locs[g], wrap)]
                gotc = ring.normalise(ring.parts_of(after.core_location))
                facts_d = dict(facts0, core_before=str(before.core_location), core_after=str(after.core_location),
                               admitted=admitted, extenders=R.canonical(rule["extenders"]))
                if not ring.covers(gotc, ring.span(before.core_location, wrap)):
                    ctx.violate("extended-core-contains-base-core", facts_d, world)
                    continue
                if not wrap:
                    exp = [(min(s for s, _ in spans), max(e for _, e in spans))]
                else:
                    cands = ring.cover_candidates(spans, length)
                    if len(cands) > 1 or 2 * cands[0][1] >= length:
                        ctx.count("saturated:extender-core")
                        # (a gene is covered when its exons are: an intron may hold the stretch the core leaves out)
                        exons = list(ring.span(before.core_location, wrap)) + \
                            [iv for g in admitted for iv in ring.parts_of(locs[g])]
                        if not ring.covers(gotc, exons):
                            ctx.violate("extended-core-covers-admitted", facts_d, world)
                        continue
                    exp = ring.normalise(ring.arc_to_intervals(cands[0][0], cands[0][1], length))
                if gotc != ring.normalise(exp):
                    ctx.violate("extended-core-is-base-plus-admitted", dict(facts_d, expected=exp), world)
                elif admitted and gotc != ring.normalise(ring.parts_of(before.core_location)):
                    shapes.add("extender-extension")
        # ---- (e) superiors -----------------------------------------------------------------
        if rule.get("superiors") and CAP.pre_removal is not None:
            pool = CAP.pre_removal
            for c in [x for x in pool if x.product == name]:
                ctx.count("op:superiors")
                dropped = any(c is r for r in removed)
                core_ivs = ring.parts_of(c.core_location)
                core_genes = [g for g in locs if ring.covers(core_ivs, ring.parts_of(locs[g]))]
                full, partial = False, False
                covering_bridges = False
                for s in pool:
                    if s.product not in rule["superiors"]:
                        continue
                    s_ivs = ring.parts_of(s.core_location)
                    covered = [g for g in core_genes if ring.covers(s_ivs, ring.parts_of(locs[g]))]
                    if core_genes and len(covered) == len(core_genes):
                        full = True
                        covering_bridges = covering_bridges or len(s.core_location.parts) > 1
                    elif covered or ring.intervals_intersect(s_ivs, core_ivs):
                        partial = True
                    else:
                        # gene ranges interleaving without sharing bases counts as partial for the classifier
                        s_genes = [g for g in locs if ring.covers(s_ivs, ring.parts_of(locs[g]))]
                        if s_genes and core_genes:
                            lo = min(ring.span(locs[g], wrap)[0][0] for g in core_genes)
                            hi = max(ring.span(locs[g], wrap)[-1][1] for g in core_genes)
                            if any(lo <= ring.span(locs[g], wrap)[0][0] < hi for g in s_genes):
                                partial = True
                facts_e = dict(facts0, core=str(c.core_location), superiors=rule["superiors"], full_cover=full,
                               partial_cover=partial, dropped=dropped, core_crosses_origin=len(c.core_location.parts) > 1,
                               covering_superior_core_crosses_origin=covering_bridges)
                if dropped and not full:
                    ctx.violate("dropped-without-covering-superior", facts_e, world)
                elif not dropped and full:
                    ctx.violate("kept-despite-covering-superior", facts_e, world)
                elif dropped:
                    shapes.add("superior-removal")
    by_rule_extenders = {r["name"]: r.get("extenders") for r in world["rules"]}
    # ---- (b') the reported protoclusters of one rule are separate groups: no two of their cores share a gene (cores
    #      that came to share one through EXTENDERS are one group)
    for i, c in enumerate(final):
        for other in final[i + 1:]:
            if other.product != c.product:
                continue
            ctx.count("op:same-rule-cores-apart")
            shared = [g for g in locs if ring.covers(ring.parts_of(c.core_location), ring.parts_of(locs[g]))
                      and ring.covers(ring.parts_of(other.core_location), ring.parts_of(locs[g]))]
            if shared:
                ctx.violate("reported-cores-of-one-rule-share-no-gene",
                            {"rule": c.product, "cores": [str(c.core_location), str(other.core_location)],
                             "shared_genes": sorted(shared), "circular": circular, "L": length,
                             "has_extenders": bool(by_rule_extenders.get(c.product))}, world)
    # ---- (e') superiors on the reported result: whatever the order of the internal stages, no reported protocluster
    #      may have all its core genes inside the reported core of a protocluster of one of its rule's superiors
    by_name = {r["name"]: r for r in world["rules"]}
    for c in final:
        sups = by_name.get(c.product, {}).get("superiors") or []
        if not sups:
            continue
        ctx.count("op:superiors-final")
        core_ivs = ring.parts_of(c.core_location)
        core_genes = [g for g in locs if ring.covers(core_ivs, ring.parts_of(locs[g]))]
        for s in final:
            if s.product not in sups or not core_genes:
                continue
            s_ivs = ring.parts_of(s.core_location)
            if all(ring.covers(s_ivs, ring.parts_of(locs[g])) for g in core_genes):
                in_stage_pool = any(s is x for x in (CAP.pre_removal or []))
                ctx.violate("reported-inferior-inside-reported-superior-core",
                            {"rule": c.product, "superior": s.product, "core": str(c.core_location),
                             "superior_core": str(s.core_location), "circular": circular, "L": length,
                             "superior_has_extenders": bool(by_name[s.product].get("extenders")),
                             "superior_core_formed_after_removal_stage": not in_stage_pool}, world)
                break
    for s in shapes:
        ctx.count("shape:" + s)
    # every returned protocluster is one of the final clusters
    if results is not None:
        if len(results.protoclusters) != len(final):
            ctx.violate("results-list-final-clusters", {"results": len(results.protoclusters), "final": len(final)}, world)
    return nontrivial


def run_world(ctx, world):
    W.quiet()
    CAP.reset()
    record = W.build_record(world)
    live_hits = dict(world["hits"])
    # in a third of the worlds every other profile is an HMM signature (its hits come from the HMMer stage, the
    # others from dynamic profiles): a gene may carry hits of both kinds
    hmm_names = set(W.PROFILES[::2]) if zlib.crc32(repr(sorted(world["hits"].items())).encode()) % 3 == 0 else set()
    try:
        ruleset = W.build_ruleset(dict(world, hits=live_hits), hmm_names=hmm_names)
    except (ValueError, SyntaxError) as err:
        ctx.count("skipped:ruleset-rejected:" + str(err)[:40])
        return
    for rule in world["rules"]:
        c01.REGISTRY[rule["name"]] = rule["ast"]
    real_find = CP.find_hmmer_hits
    if hmm_names:
        CP.find_hmmer_hits = lambda *_args, **_kwargs: W.hmmer_hits_of({"hits": live_hits}, hmm_names)
        if any(set(hs) & hmm_names and set(hs) - hmm_names for hs in live_hits.values()):
            ctx.count("class:gene-with-hmmer-and-dynamic-hits")
    try:
        # a ruleset serves every record of a run: a quarter of the worlds are the second record of their run, the
        # first being a small circular plasmid (shorter than twice the largest cutoff) on which every profile hits
        if zlib.crc32(repr(sorted(world["genes"])).encode() + str(world["L"]).encode()) % 4 == 0:
            largest = max(r["cutoff_kb"] for r in world["rules"]) * 1000
            plasmid = {"L": largest + 300, "circular": True,
                       "genes": {"p0": {"loc": {"parts": [[0, 200]], "strand": 1}},
                                 "p1": {"loc": {"parts": [[largest // 2 + 100, largest // 2 + 300]], "strand": -1}}},
                       "hits": {"p0": {p: 50 for p in W.PROFILES}, "p1": {p: 50 for p in W.PROFILES}}}
            live_hits.clear()
            live_hits.update(plasmid["hits"])
            ctx.guard("pipeline-crash", dict(world, earlier_record=plasmid), CP.detect_protoclusters_and_signatures,
                      W.build_record(plasmid), ruleset)
            ctx.count("history:ruleset-used-on-an-earlier-small-circular-record")
            live_hits.clear()
            live_hits.update(world["hits"])
            CAP.reset()
        ok, results = ctx.guard("pipeline-crash", world, CP.detect_protoclusters_and_signatures, record, ruleset)
    finally:
        CP.find_hmmer_hits = real_find
    if not ok:
        ctx.case(("world", world), nontrivial=True)
        return
    nontrivial = check_world(ctx, world, results)
    ctx.case(("world", world), nontrivial=nontrivial, sample=world if nontrivial else None)


def extender_chain_world(rng):
    """ three or four anchor groups, each further than the cutoff from the next, bridged pairwise by an extender gene
        within the cutoff of both: the rule reports one protocluster over all of them """
    cutoff = rng.choice([1000, 2000, 3000])
    step = cutoff + rng.choice([300, 600, 900])
    groups = rng.choice([3, 3, 4])
    start = rng.choice([0, 100, 700])
    genes, hits = {}, {}
    for k in range(groups):
        at = start + k * step
        genes[f"a{k}"] = {"loc": {"parts": [[at, at + 200]], "strand": rng.choice([1, -1])}}
        hits[f"a{k}"] = {"a": 30}
        if k < groups - 1:
            mid = at + 200 + (step - 400) // 2
            genes[f"e{k}"] = {"loc": {"parts": [[mid, mid + 200]], "strand": rng.choice([1, -1])}}
            hits[f"e{k}"] = {"b": 30}
    used = start + (groups - 1) * step + 200
    circular = rng.random() < 0.5
    length = used + rng.choice([cutoff + 800, 3 * cutoff + 500])
    if circular and rng.random() < 0.6:
        far = used + (length - used) // 2
        genes["far"] = {"loc": {"parts": [[far, far + 200]], "strand": 1}}
        hits["far"] = {"a": 30}
    rule = {"name": "r0", "cutoff_kb": cutoff // 1000, "ast": ["id", "a"], "nb_kb": rng.choice([1, 2]), "superiors": [],
            "extenders": ["id", "b"]}
    return {"L": length, "circular": circular, "genes": genes, "hits": hits, "rules": [rule], "multipliers": [1.0, 1.0]}


def extender_same_start_world(rng):
    """ a gene over the origin that only an extender profile hits, within the cutoff before a core lying after the
        origin, and a short gene beginning at the very coordinate where the gene over the origin begins, whose end is
        out of reach: walking back from the core, the gene over the origin is met, whatever begins where it begins """
    cutoff = rng.choice([1000, 2000, 3000])
    post = rng.choice([150, 200, 400])
    gap = rng.choice([1, 500, cutoff // 2, cutoff - 1])
    pre = cutoff + rng.choice([500, 1000])
    short = rng.choice([100, 300])
    length = rng.choice([4, 5, 6]) * cutoff + pre
    core_at = post + gap
    genes = {"over": {"loc": {"parts": [[length - pre, length], [0, post]], "strand": rng.choice([1, -1])}},
             "same": {"loc": {"parts": [[length - pre, length - pre + short]], "strand": rng.choice([1, -1])}},
             "core": {"loc": {"parts": [[core_at, core_at + 300]], "strand": rng.choice([1, -1])}},
             # (the walk in the other direction stops at this one, further than the cutoff after the core)
             "block": {"loc": {"parts": [[core_at + cutoff + 800, core_at + cutoff + 1000]], "strand": 1}}}
    hits = {"over": {"b": 30}, "core": {"a": 30}}
    if rng.random() < 0.5:
        hits["same"] = {"c": 30}
    rule = {"name": "r0", "cutoff_kb": cutoff // 1000, "ast": ["id", "a"], "nb_kb": rng.choice([1, 2]), "superiors": [],
            "extenders": ["id", "b"]}
    return {"L": length, "circular": True, "genes": genes, "hits": hits, "rules": [rule], "multipliers": [1.0, 1.0]}


def run(ctx):
    install_all(ctx)
    try:
        rng = ctx.rng("worlds")
        chain_rng = ctx.rng("extender-chains")
        same_start_rng = ctx.rng("extender-same-start")
        for index in ctx.cases(ctx.quota(2500, 200000)):
            if index % 12 == 11:
                world = extender_chain_world(chain_rng)
                ctx.count("class:extender-chain-over-three-groups")
            else:
                world = W.gen_world(rng)
            ctx.guard("harness-or-crash", world, run_world, ctx, world)
            if index % 24 == 5:
                world = extender_same_start_world(same_start_rng)
                ctx.count("class:extender-over-origin-beginning-where-another-gene-begins")
                ctx.guard("harness-or-crash", world, run_world, ctx, world)
    finally:
        instrument.uninstall_all()


def replay(ctx, case):
    install_all(ctx)
    try:
        world = case.get("file", case) if isinstance(case, dict) else case
        if "rules" in world:
            run_world(ctx, world)
        else:
            print("case was observed by a nested monitor:", case)
    finally:
        instrument.uninstall_all()



@findings.classifier("c03_superior_partial_cover")
def _c03_superior_partial_cover(clause, facts):
    """ remove_redundant_protoclusters drops an inferior protocluster as soon as the gene range of a superior's core
        overlaps the range of its own core genes, even when the superior covers only some of them.
        Must not hide: a drop with no superior core near the inferior core at all. """
    return clause == "dropped-without-covering-superior" and facts.get("partial_cover") is True and facts.get("full_cover") is False


@findings.classifier("c03_extent_of_full_ring_core")
def _c03_extent_of_full_ring_core(clause, facts):
    """ a core covering all but <= 1 base of a circular record gets the 'meet in the middle' extent
        [mid:L)+[0:mid-1), which is one base short and placed elsewhere, so it does not contain its core.
        With the core's gap at the very start of the record mid is 1 and the second piece is the empty [0:0).
        Must not hide: extents not containing their core, or with an empty piece, for any smaller core. """
    return clause in ("extent-saturated-bounds", "extent-wellformed:empty-part") and facts.get("circular") is True \
        and facts.get("core_len", 0) >= facts.get("L", 1 << 60) - 1


@findings.classifier("c03_chain_spans_half_record")
def _c03_chain_spans_half_record(clause, facts):
    """ a chain whose shortest covering arc is at least half of a circular record is connected the other way round
        (connect_locations only guarantees the shortest arc below half the record), so its core swallows anchors of
        other chains. Must not hide: over-merging when every chain is shorter than half the record, or any
        unchained anchors. """
    return clause == "cores-are-maximal-chains" and facts.get("some_chain_spans_half_the_record") is True \
        and not facts.get("unchained") and bool(facts.get("overmerged"))


@findings.classifier("c03_superior_cover_across_origin")
def _c03_superior_cover_across_origin(clause, facts):
    """ the gene-order comparison in remove_redundant_protoclusters does not work when both the inferior core and the
        covering superior core cross the origin: the inferior is kept although all its core genes are covered.
        Must not hide: a kept inferior under a covering superior when either core is a plain span. """
    return clause == "kept-despite-covering-superior" and facts.get("core_crosses_origin") is True \
        and facts.get("covering_superior_core_crosses_origin") is True
