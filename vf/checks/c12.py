"""C12 Per-region GenBank files are faithful, self-consistent extracts.

Executed (all real): Record.add_* / create_candidate_clusters / create_regions to annotate a generated record,
Record.to_biopython, Region.write_to_genbank for every region (the way main.write_outputs calls it: one shared
SeqRecord per record, regions in order; and, for a share of the worlds, with no SeqRecord passed),
Bio.SeqIO.read of each file, Record.from_biopython of each file.

Observed per region file (oracle = extraction + reload + dumps, no model of the renumbering arithmetic):
  * sequence of the file == bases of the region in travel order (pre-origin part + post-origin part);
  * every parent feature lying inside the region is in the file exactly once, covering the same parent bases in
    the same reading order (positions mapped back through the window), extracting the same letters, with the
    same unadjusted qualifiers; nothing else is in the file;
  * protocluster / candidate / subregion numbers in the file are 1..n, and every cross reference (core_location,
    proto_core, protoclusters, candidate_cluster_numbers, subregion_numbers, leader/tail_location) leads, inside the
    file, to the feature that is the image of the member it leads to in the parent;
  * the file loads through the real loader into exactly one region with the same genes, areas and annotations;
  * dumps of the SeqRecord handed in and of the secmet Record are the same before and after each write.
"""
from __future__ import annotations

import collections
import logging
import os
import shutil
import tempfile

from Bio import SeqIO
from Bio.Seq import Seq

from antismash.common.secmet import Record
from antismash.common.secmet.features import (AntismashDomain, CDSFeature, CDSMotif, Feature, Gene, PFAMDomain,
                                              Prepeptide, Protocluster, SubRegion)
from antismash.common.secmet.features.protocluster import SideloadedProtocluster
from antismash.common.secmet.features.subregion import SideloadedSubRegion
from antismash.common.secmet.locations import CompoundLocation, FeatureLocation
from antismash.common.secmet.qualifiers.gene_functions import GeneFunction

from vf import core, findings
from vf.gen import c12_worlds as W
from vf.models import c12_extract as X

PROPERTY = "C12"
LEVEL = "exploration"
PARALLEL = True
RULE = ("records of 1-12 kb of random DNA with planted genes (real CDSFeatures, sense codons + stop, 1-3 exons, either "
        "strand, a few nested/overlapping genes), full GenBank header annotations incl. the antiSMASH structured "
        "comment, gene features, generic features, CDS motifs, aSDomains, PFAM domains, prepeptides with leader/tail; "
        "1-4 clumps of 1-4 protoclusters (cores of 1-3 genes, neighbourhoods 0-600 bp cutting genes, shared defining "
        "genes, identical coordinates, sideloaded ones) and 0-3 (sideloaded) subregions, grouped by the real "
        "create_candidate_clusters / create_regions; linear records with clumps anchored at the first/last gene (regions "
        "touching an end), circular records rotated so that the origin falls inside an area, a gene of an area, a gene cut "
        "by an area border, an exon, an area edge or anywhere; every tenth world a small ring ('plasmid') whose areas go "
        "once round it, meeting at or away from the origin. Every region of every record is written, 3 of 4 worlds the "
        "way main.write_outputs does (one SeqRecord shared by all regions). Non-trivial: a region that is not the first "
        "of its record or that spans the origin; distinct by layout.")
ASSUMPTIONS = [
    "A parent feature is 'inside the region' when all its bases are; features cut by a region border are not "
    "required to appear (Biopython drops them) but nothing that is not the image of an inside feature may appear.",
    "Prepeptides are generated only on genes lying wholly inside a region (the RiPP modules only annotate those); "
    "other motifs and domains are generated on any gene.",
    "The region_number qualifier of the region feature is not among the cross references the property lists; it is "
    "recorded (counter region_number:kept/renumbered) and not judged.",
    "'The same content' after reloading is compared order-insensitively (sets of genes, areas, annotations with "
    "their coordinates in the extract), since the statement does not fix an order.",
    "Header details of the extract (topology line, NOTE/Orig. start/end comment) are not judged beyond being readable.",
    "Worlds whose construction is refused by antiSMASH itself (region formation is C06's subject) are counted and skipped.",
    "Files are read back with Bio.SeqIO and loaded with taxon 'bacteria', as antiSMASH does for its own results; "
    "qualifier values are compared with whitespace removed (GenBank line wrapping), strandless features as forward.",
]
REQUIRED = ["glue:region-file", "op:file-sequence", "op:feature-same-bases", "op:feature-sequence", "op:numbering", "op:xref:core_location",
            "op:xref:proto_core", "op:xref:protoclusters", "op:xref:candidate_cluster_numbers",
            "op:xref:subregion_numbers", "op:xref:leader_location", "op:xref:tail_location", "op:reload",
            "op:reload-content", "op:parent-unchanged:biopython", "op:parent-unchanged:secmet",
            "region:first", "region:later", "region:touches-start", "region:touches-end", "region:spans-origin",
            "region:spans-origin+gene-spans-origin", "region:spans-origin+area-spans-origin",
            "region:candidates>=2", "region:subregions>=2", "region:subregion-only", "region:with-prepeptide",
            "region:with-prepeptide-after-origin", "region:first-protocluster-number>1",
            "region:first-subregion-number>1", "region:with-identical-coordinate-protoclusters",
            "region:whole-record",
            "feature:cut-by-region-border", "feature:origin-spanning-gene-cut-by-region-border", "op:header-window",
            "mode:shared", "mode:per-call"]

ADJUSTED = {"core_location", "protocluster_number", "candidate_cluster_number", "candidate_cluster_numbers",
            "protoclusters", "subregion_number", "subregion_numbers", "leader_location", "tail_location",
            "region_number"}
AREA_TYPES = {"region", "cand_cluster", "protocluster", "proto_core", "subregion"}


# (classifiers for the known deviations of the current tree are registered at the end of the file)

# --------------------------------------------------------------------------
# building the real objects
# --------------------------------------------------------------------------

def make_location(parts, strand):
    locs = [FeatureLocation(s, e, strand) for s, e in parts]
    if len(locs) == 1:
        return locs[0]
    if strand == -1:
        locs.reverse()
    return CompoundLocation(locs)


def translation_of(seq, location) -> str:
    nucleotides = str(location.extract(seq))
    protein = str(Seq(nucleotides[:len(nucleotides) - len(nucleotides) % 3]).translate(table=11))
    if protein.endswith("*"):
        protein = protein[:-1]
    return "M" + protein[1:].replace("*", "X")


def build_record(world):
    record = Record(Seq(world["seq"]), transl_table=11)
    record.id = "c12rec"
    record.name = "c12rec"
    record.description = "generated record for region extraction"
    record.annotations.update({
        "molecule_type": "DNA", "topology": "circular" if world["circular"] else "linear",
        "source": "Streptomyces verificans", "organism": "Streptomyces verificans",
        "taxonomy": ["Bacteria", "Actinomycetota", "Actinomycetes"], "data_file_division": "BCT",
        "date": "01-JAN-2020", "accessions": ["c12rec"], "sequence_version": 1, "keywords": [""],
        "comment": "generated by the C12 world generator",
    })
    record.record_index = 1
    cds_by_name = {}
    for gene in world["genes"]:
        location = make_location(gene["parts"], gene["strand"])
        cds = CDSFeature(location, translation_of(record.seq, location), locus_tag=gene["name"], product="hypothetical")
        for product in gene["core_products"]:
            cds.gene_functions.add(GeneFunction.CORE, "verif", "core gene", product)
        record.add_cds_feature(cds)
        cds_by_name[gene["name"]] = cds
        if gene["gene_feature"]:
            record.add_gene(Gene(location, locus_tag=gene["name"]))
        for k, (start, end) in enumerate(gene["motifs"]):
            motif = CDSMotif(cds.get_sub_location_from_protein_coordinates(start, end), gene["name"],
                             FeatureLocation(start, end), tool="verif")
            motif.domain_id = f"motif_{gene['name']}_{k}"
            motif.label = "motif label"
            record.add_cds_motif(motif)
        for k, (start, end, kind) in enumerate(gene["domains"]):
            sub = cds.get_sub_location_from_protein_coordinates(start, end)
            if kind == "as":
                domain = AntismashDomain(sub, "verif", FeatureLocation(start, end), gene["name"], domain="DOM")
                domain.domain_id = f"asdom_{gene['name']}_{k}"
                record.add_antismash_domain(domain)
            else:
                domain = PFAMDomain(sub, "a description", FeatureLocation(start, end), "PF00001.1", "verif",
                                    gene["name"], domain="p450")
                domain.domain_id = f"pfam_{gene['name']}_{k}"
                record.add_pfam_domain(domain)
    for generic in world["generics"]:
        record.add_feature(Feature(make_location(generic["parts"], generic["strand"] or None), generic["type"]))
    for j, proto in enumerate(world["protoclusters"]):
        core_loc = make_location(proto["core"], 1)
        extent = make_location(proto["extent"], 1)
        if proto["sideloaded"]:
            area = SideloadedProtocluster(core_loc, extent, f"exttool{j}", proto["product"],
                                          neighbourhood_range=proto["nb"])
        else:
            area = Protocluster(core_loc, extent, "verif", proto["product"], proto["cutoff"], proto["nb"],
                                proto["rule"], product_category="catA")
        record.add_protocluster(area)
    for j, sub in enumerate(world["subregions"]):
        extent = make_location(sub["extent"], 1)
        if sub["sideloaded"]:
            record.add_subregion(SideloadedSubRegion(extent, f"subtool{j}", label=sub["label"]))
        else:
            record.add_subregion(SubRegion(extent, "verif", label=sub["label"]))
    record.create_candidate_clusters()
    record.create_regions()
    # prepeptides: only on genes that ended up wholly inside a region
    skipped = 0
    for gene in world["genes"]:
        if not gene["prepeptide"]:
            continue
        cds = cds_by_name[gene["name"]]
        if cds.region is None:
            skipped += 1
            continue
        a, b = gene["prepeptide"]
        peptide = cds.translation
        record.add_cds_motif(Prepeptide(cds.location, "lanthipeptide", peptide[a:b], gene["name"], "verif", "Class I",
                                        1.5, 100.0, 200.0, [1.0, 2.0], leader=peptide[:a], tail=peptide[b:]))
    return record, skipped


def add_comment_like_main(bio):
    bio.annotations.setdefault("structured_comment", {})
    bio.annotations["structured_comment"]["antiSMASH-Data"] = {"Version": "verif", "Run date": "2020-01-01 00:00:00"}


# --------------------------------------------------------------------------
# the oracle
# --------------------------------------------------------------------------

def _norm_qualifiers(qualifiers) -> tuple:
    out = []
    for key, values in qualifiers.items():
        if key in ADJUSTED:
            continue
        if not isinstance(values, (list, tuple)):
            values = [values]
        vals = ["".join(str(v).split()) for v in values]
        if not vals:
            continue
        out.append((key, tuple(vals)))
    return tuple(sorted(out))


def _ints(feature, key):
    try:
        return [int(v) for v in feature.qualifiers.get(key, [])]
    except ValueError:
        return None


class Log:
    """ deviations of one region file: recorded through ctx.violate, remembered with their attribution so that
        a failing reload can be related to what was already wrong in the file """
    def __init__(self, ctx, facts, case):
        self.ctx = ctx
        self.facts = facts
        self.case = case
        self.failed: list[str] = []
        self.known: set[str] = set()
        self.unattributed = 0

    def violate(self, clause, extra=None):
        known = self.ctx.violate(clause, dict(self.facts, **(extra or {})), self.case)
        self.failed.append(clause)
        if known is None:
            self.unattributed += 1
        else:
            self.known.add(known)
        return known

    def reload_facts(self):
        return dict(self.facts, file_level_failures=sorted(set(self.failed)),
                    file_level_failures_all_known=bool(self.failed) and self.unattributed == 0)


class RegionView:
    """ what the parent says about one region, read off the secmet objects and the pristine SeqRecord """
    def __init__(self, record, region, reference_bio, world):
        self.region = region
        self.length = len(record.seq)
        self.circular = world["circular"]
        self.geo = X.Geometry(region.location, self.length, self.circular)
        self.number = region.get_region_number()
        self.protoclusters = list(region.get_unique_protoclusters())
        self.candidates = list(region.candidate_clusters)
        self.subregions = list(region.subregions)
        self.proto_numbers = sorted(p.get_protocluster_number() for p in self.protoclusters)
        self.cand_numbers = sorted(c.get_candidate_cluster_number() for c in self.candidates)
        self.sub_numbers = sorted(s.get_subregion_number() for s in self.subregions)
        # parent features inside / cut by the window
        self.inside = []
        self.cut = []
        for feature in reference_bio.features:
            if self.geo.contains(feature.location):
                self.inside.append(feature)
            elif self.geo.overlaps(feature.location):
                self.cut.append(feature)

    def facts(self, n_regions, mode):
        geo = self.geo

        def contiguous(numbers):
            return not numbers or numbers == list(range(numbers[0], numbers[0] + len(numbers)))

        def in_extract_order(areas, number):
            def position(area):
                first = int(area.location.parts[0].start)
                offset = (first - geo.start) % self.length if self.circular else first - geo.start
                return (offset, -len(area.location), number(area))
            return [number(a) for a in sorted(areas, key=position)]

        def rotated(areas, number):
            order = in_extract_order(areas, number)
            return order != sorted(order)

        def twins(areas):
            seen = collections.Counter(tuple(X.intervals(a.location)) for a in areas)
            return any(v > 1 for v in seen.values())
        return {
            "area_order_in_extract_differs_from_parent": geo.crosses and (
                rotated(self.protoclusters, lambda a: a.get_protocluster_number())
                or rotated(self.candidates, lambda a: a.get_candidate_cluster_number())
                or rotated(self.subregions, lambda a: a.get_subregion_number())),
            "areas_with_identical_coordinates": twins(self.protoclusters) or twins(self.subregions),
            "mode": mode, "circular": self.circular, "region_index": min(self.number, 3), "regions_in_record": min(n_regions, 4),
            "later_region": self.number > 1, "region_spans_origin": geo.crosses,
            "region_touches_start": (not geo.crosses) and geo.start == 0,
            "region_touches_end": (not geo.crosses) and geo.start + geo.length == self.length,
            "n_candidates": len(self.candidates), "n_protoclusters": len(self.protoclusters),
            "n_subregions": len(self.subregions),
            "first_candidate_number_is_1": (self.cand_numbers or [1])[0] == 1,
            "first_protocluster_number_is_1": (self.proto_numbers or [1])[0] == 1,
            "first_subregion_number_is_1": (self.sub_numbers or [1])[0] == 1,
            "protocluster_numbers_contiguous": contiguous(self.proto_numbers),
            "candidate_numbers_contiguous": contiguous(self.cand_numbers),
            "subregion_numbers_contiguous": contiguous(self.sub_numbers),
        }


def pair_features(ctx, view: RegionView, file_bio, log: Log):
    """ every inside feature of the parent <-> exactly one feature of the file over the same bases.
        Returns pairs [(parent_feature, file_feature)] """
    geo = view.geo
    # parent features that span the origin and are cut by the border of the window, by type
    cut_spanning = collections.Counter(f.type for f in view.cut if geo.crosses and X.spans_origin(f.location))
    expected = collections.defaultdict(list)
    for feature in view.inside:
        key = (feature.type, str(X.strand_of(feature.location)), geo.parent_runs_in_file(feature.location))
        expected[key].append(feature)
    got = collections.defaultdict(list)
    for feature in file_bio.features:
        if not geo.in_bounds(feature.location):
            log.violate("feature-location-invalid",
                        dict(feature_type=feature.type, location=str(feature.location), file_length=geo.length,
                             multipart=len(feature.location.parts) > 1,
                             origin_spanning_parent_feature_of_type_cut_by_border=cut_spanning[feature.type] > 0))
            continue
        key = (feature.type, str(X.strand_of(feature.location)), geo.file_runs(feature.location))
        got[key].append(feature)
    pairs = []
    for key in sorted(set(expected) | set(got), key=repr):
        exp, have = expected.get(key, []), got.get(key, [])
        ctx.count("op:feature-same-bases", max(len(exp), len(have)))
        if len(exp) > len(have):
            parent = exp[0]
            log.violate("feature-missing-or-moved",
                        dict(feature_type=key[0], parent_location=str(parent.location),
                             feature_side=geo.side(parent.location), multipart=len(parent.location.parts) > 1,
                             # parts on either side of the stretch the region leaves out, without going over the origin
                             feature_straddles_the_stretch_outside_the_region=bool(
                                 geo.crosses and geo.side(parent.location) == "crossing"
                                 and not X.spans_origin(parent.location)),
                             same_type_in_file=[str(f.location) for f in file_bio.features if f.type == key[0]][:6]))
        elif len(have) > len(exp):
            extra = have[0]
            cut = [f for f in view.cut if f.type == key[0]]
            log.violate("feature-unexpected",
                        dict(feature_type=key[0], file_location=str(extra.location),
                             parent_features_of_type_cut_by_border=[str(f.location) for f in cut][:4],
                             origin_spanning_parent_feature_of_type_cut_by_border=cut_spanning[key[0]] > 0))
        # pair within the key by the unadjusted qualifiers, then by original/new number (renumbering keeps order)
        def order(feature):
            numbers = [_ints(feature, q) or [] for q in ("protocluster_number", "candidate_cluster_number",
                                                          "subregion_number")]
            return (_norm_qualifiers(feature.qualifiers), numbers)
        exp_sorted = sorted(exp, key=order)
        have_sorted = sorted(have, key=order)
        if len(exp) > 1:
            ctx.count("class:features-with-identical-coordinates")
        for parent, child in zip(exp_sorted, have_sorted):
            pairs.append((parent, child))
    return pairs


def check_pairs(ctx, pairs, parent_seq, file_seq, log: Log):
    for parent, child in pairs:
        ctx.count("op:feature-sequence")
        want = str(parent.location.extract(parent_seq))
        have = str(child.location.extract(file_seq))
        if want != have:
            log.violate("feature-sequence", dict(feature_type=parent.type, parent_location=str(parent.location),
                                                 file_location=str(child.location)))
        ctx.count("op:feature-qualifiers")
        pq, cq = _norm_qualifiers(parent.qualifiers), _norm_qualifiers(child.qualifiers)
        if pq != cq:
            pd, cd = dict(pq), dict(cq)
            differing = sorted(k for k in set(pd) | set(cd) if pd.get(k) != cd.get(k))
            log.violate("feature-qualifiers", dict(feature_type=parent.type, qualifiers=differing,
                                                   parent_values=[pd.get(k) for k in differing][:3],
                                                   file_values=[cd.get(k) for k in differing][:3]))


def check_numbers_and_references(ctx, view: RegionView, pairs, file_bio, log: Log):
    """ numbers 1..n; every reference leads to the image of the parent's member """
    geo = view.geo
    violate = log.violate

    by_type = collections.defaultdict(list)
    for feature in file_bio.features:
        by_type[feature.type].append(feature)
    parent_of = {id(child): parent for parent, child in pairs}

    # --- numbering -----------------------------------------------------------------------------
    number_maps = {}   # kind -> {file number: parent number}
    for kind, ftype, qual in (("protocluster", "protocluster", "protocluster_number"),
                              ("candidate", "cand_cluster", "candidate_cluster_number"),
                              ("subregion", "subregion", "subregion_number")):
        ctx.count("op:numbering")
        numbers = []
        mapping = {}
        for feature in by_type[ftype]:
            nums = _ints(feature, qual)
            if not nums or len(nums) != 1:
                violate("numbering:" + kind, {"problem": "no single number", "got": feature.qualifiers.get(qual)})
                continue
            numbers.append(nums[0])
            parent = parent_of.get(id(feature))
            if parent is not None:
                mapping[nums[0]] = _ints(parent, qual)[0]
        if sorted(numbers) != list(range(1, len(numbers) + 1)):
            violate("numbering:" + kind, {"problem": "not 1..n", "file_numbers": sorted(numbers)[:8],
                                          "parent_numbers": {"protocluster": view.proto_numbers, "candidate": view.cand_numbers,
                                                             "subregion": view.sub_numbers}[kind][:8]})
        number_maps[kind] = mapping

    def resolve(kind, file_numbers):
        return [number_maps[kind].get(n) for n in file_numbers]

    # --- protocluster: core_location, proto_core ----------------------------------------------------
    proto_by_parent_number = {p.get_protocluster_number(): p for p in view.protoclusters}
    core_of_file_number = {}
    for feature in by_type["protocluster"]:
        ctx.count("op:xref:core_location")
        parent = parent_of.get(id(feature))
        text = feature.qualifiers.get("core_location", [""])[0]
        parsed = X.parse_location_string(text)
        if parent is None:
            continue   # already reported as unexpected
        proto = proto_by_parent_number.get(_ints(parent, "protocluster_number")[0])
        if proto is None:
            continue
        want = geo.parent_runs_in_file(proto.core_location)
        have = geo.file_parts_runs(parsed) if parsed else None
        nums = _ints(feature, "protocluster_number")
        if nums:
            core_of_file_number[nums[0]] = have
        if have != want:
            violate("xref:core_location", {"qualifier": text, "parent_core": str(proto.core_location),
                                           "core_side": geo.side(proto.core_location),
                                           "core_multipart": len(proto.core_location.parts) > 1})
    for feature in by_type["proto_core"]:
        ctx.count("op:xref:proto_core")
        nums = _ints(feature, "protocluster_number")
        if not nums or nums[0] not in core_of_file_number:
            violate("xref:proto_core", {"problem": "number leads to no protocluster", "got": nums})
            continue
        if geo.file_runs(feature.location) != core_of_file_number[nums[0]]:
            violate("xref:proto_core", {"problem": "core feature is not the core_location of its protocluster",
                                        "core_feature": str(feature.location)})
        parent = parent_of.get(id(feature))
        if parent is not None and number_maps["protocluster"].get(nums[0]) != _ints(parent, "protocluster_number")[0]:
            violate("xref:proto_core", {"problem": "core feature numbered as another protocluster"})

    # --- candidates: protoclusters ----------------------------------------------------------------
    cand_by_parent_number = {c.get_candidate_cluster_number(): c for c in view.candidates}
    for feature in by_type["cand_cluster"]:
        ctx.count("op:xref:protoclusters")
        parent = parent_of.get(id(feature))
        if parent is None:
            continue
        cand = cand_by_parent_number.get(_ints(parent, "candidate_cluster_number")[0])
        if cand is None:
            continue
        want = [p.get_protocluster_number() for p in cand.protoclusters]
        have = resolve("protocluster", _ints(feature, "protoclusters") or [])
        if have != want:
            violate("xref:protoclusters", {"file_numbers": feature.qualifiers.get("protoclusters"),
                                           "lead_to_parent_numbers": have, "parent_numbers": want})

    # --- region: candidate_cluster_numbers, subregion_numbers --------------------------------------------
    regions = by_type["region"]
    if len(regions) != 1:
        violate("region-feature-count", {"count": len(regions)})
    for feature in regions[:1]:
        kept = feature.qualifiers.get("region_number") == [str(view.number)]
        ctx.count("region_number:kept" if kept else "region_number:renumbered")
        for qual, kind, want in (("candidate_cluster_numbers", "candidate", [c.get_candidate_cluster_number() for c in view.candidates]),
                                 ("subregion_numbers", "subregion", [s.get_subregion_number() for s in view.subregions])):
            ctx.count("op:xref:" + qual)
            file_numbers = _ints(feature, qual) or []
            have = resolve(kind, file_numbers)
            if have != want:
                violate("xref:" + qual, {"file_numbers": file_numbers[:8], "lead_to_parent_numbers": have[:8],
                                         "parent_numbers": want[:8],
                                         "numbers_left_as_in_parent": file_numbers == want and want[:1] != [1]})

    # --- prepeptides: leader/tail ------------------------------------------------------------------------
    for feature in by_type["CDS_motif"]:
        if feature.qualifiers.get("prepeptide") != ["core"]:
            continue
        parent = parent_of.get(id(feature))
        if parent is None:
            continue
        locus = feature.qualifiers.get("locus_tag")
        for qual, section in (("leader_location", "leader"), ("tail_location", "tail")):
            if qual not in parent.qualifiers:
                continue
            ctx.count("op:xref:" + qual)
            parent_parts = X.parse_location_string(parent.qualifiers[qual][0])
            want = geo.parent_parts_in_file(parent_parts)
            text = feature.qualifiers.get(qual, [""])[0]
            parsed = X.parse_location_string(text)
            have = geo.file_parts_runs(parsed) if parsed else None
            extra = {"qualifier": text, "parent_qualifier": parent.qualifiers[qual][0],
                     "prepeptide_side": geo.side(parent.location),
                     "segment_reaches_past_origin": geo.crosses and any(e <= geo.parts[1][1] for _, e, _ in parent_parts)}
            if have != want:
                violate("xref:" + qual, extra)
                continue
            # and the segment feature itself, when it is in the file, sits on the same bases
            segments = [f for f in by_type["CDS_motif"]
                        if f.qualifiers.get("prepeptide") == [section] and f.qualifiers.get("locus_tag") == locus]
            if segments and all(geo.file_runs(f.location) != have for f in segments):
                violate("xref:" + qual, dict(extra, problem="segment feature elsewhere"))


def region_content(region, record, to_file):
    """ order-insensitive description of a region: genes, areas, annotations; `to_file(location)` gives runs
        in extract coordinates """
    def proto_key(proto):
        return (type(proto).__name__, proto.product, proto.detection_rule, proto.tool, proto.cutoff,
                proto.neighbourhood_range, to_file(proto.location), to_file(proto.core_location),
                tuple(sorted(c.get_name() for c in proto.definition_cdses)))
    inside = {cds.get_name() for cds in region.cds_children}
    content = {
        "genes": sorted(inside),
        "gene details": sorted((cds.get_name(), cds.translation, to_file(cds.location),
                                tuple(sorted(str(f) for f in cds.gene_functions))) for cds in region.cds_children),
        "protoclusters": sorted((proto_key(p) for p in region.get_unique_protoclusters()), key=repr),
        "candidates": sorted(((str(c.kind), to_file(c.location), tuple(sorted((proto_key(p) for p in c.protoclusters), key=repr)))
                              for c in region.candidate_clusters), key=repr),
        "subregions": sorted(((type(s).__name__, s.label, s.tool, to_file(s.location)) for s in region.subregions), key=repr),
        "products": sorted(region.products),
    }
    prepeptides, motifs = [], []
    for motif in record.get_cds_motifs():
        if not motif.is_contained_by(region):
            continue
        if isinstance(motif, Prepeptide):
            prepeptides.append((motif.locus_tag, motif.leader, motif.core, motif.tail, motif.peptide_class,
                                to_file(motif.location)))
        else:
            motifs.append((motif.domain_id, motif.locus_tag, str(motif.protein_location), to_file(motif.location)))
    content["prepeptides"] = sorted(prepeptides, key=repr)
    content["motifs"] = sorted(motifs, key=repr)
    content["domains"] = sorted(((d.domain_id, d.locus_tag, str(d.protein_location), to_file(d.location))
                                 for d in list(record.get_antismash_domains()) + list(record.get_pfam_domains())
                                 if d.is_contained_by(region)), key=repr)
    return content


def _strip_spaces(value):
    if isinstance(value, str):
        return value.replace(" ", "")
    if isinstance(value, (list, tuple)):
        return tuple(_strip_spaces(v) for v in value)
    return value


def _by_coordinates_only(candidates):
    """ candidates with their members reduced to coordinates (who is who among twins is forgotten) """
    return sorted(((kind, extent, tuple(sorted(m[6] for m in members))) for kind, extent, members in candidates),
                  key=repr)


def second_generation(ctx, region, reloaded, have, geo, facts, case):
    """ history: the region file is itself a record with one region (whose children are listed in the order the first
        file gave them, not necessarily numeric); written again from there and read, the content has to be the same """
    path = os.path.join(tempfile.gettempdir(), f"vf-c12-second-{os.getpid()}.gbk")
    try:
        region.write_to_genbank(filename=path)
        again = Record.from_biopython(SeqIO.read(path, "genbank"), "bacteria")
    except Exception as err:  # pylint: disable=broad-except
        ctx.violate("second-generation-fails", dict(facts, **core.crash_facts(err)), case)
        return
    finally:
        if os.path.exists(path):
            os.remove(path)
    ctx.count("history:region-file-written-again-from-the-reloaded-record")
    regions = again.get_regions()
    if len(regions) != 1:
        ctx.violate("second-generation-region-count", dict(facts, regions=len(regions)), case)
        return
    second = region_content(regions[0], again, geo.file_runs)
    for section in have:
        if have[section] != second[section]:
            ctx.violate("second-generation-content:" + section.replace(" ", "-"),
                        dict(facts, only_in_first=core.jsonable([x for x in have[section] if x not in second[section]][:2]),
                             only_in_second=core.jsonable([x for x in second[section] if x not in have[section]][:2]),
                             counts=[len(have[section]), len(second[section])]), case)


def check_reload(ctx, view: RegionView, record, file_bio, log: Log, case):
    ctx.count("op:reload")
    geo = view.geo
    facts = log.reload_facts()
    multipart_whole = any(len(f.location.parts) > 1 and int(f.location.start) == 0 and int(f.location.end) == geo.length
                          for f in file_bio.features)
    facts["multipart_feature_from_first_to_last_base_of_extract"] = multipart_whole
    try:
        reloaded = Record.from_biopython(file_bio, "bacteria")
    except Exception as err:  # pylint: disable=broad-except
        ctx.violate("reload-fails", dict(facts, **core.crash_facts(err)), case)
        return
    regions = reloaded.get_regions()
    if len(regions) != 1:
        ctx.violate("reload-region-count", dict(facts, regions=len(regions)), case)
        return
    ctx.count("op:reload-content")
    want = region_content(view.region, record, geo.parent_runs_in_file)
    have = region_content(regions[0], reloaded, geo.file_runs)
    facts["reloaded_region_extent_differs"] = geo.file_runs(regions[0].location) != ((0, geo.length, 1),)
    if facts["reloaded_region_extent_differs"]:
        ctx.violate("reload-content:region-extent", dict(facts, reloaded_region=str(regions[0].location),
                                                         file_length=geo.length), case)
    if all(want[section] == have[section] for section in want) and not facts["reloaded_region_extent_differs"]:
        second_generation(ctx, regions[0], reloaded, have, geo, facts, case)
    for section in want:
        if want[section] != have[section]:
            only_parent = [x for x in want[section] if x not in have[section]]
            only_file = [x for x in have[section] if x not in want[section]]
            extra = {}
            if section == "prepeptides":
                extra["differs_only_by_spaces_in_sequences"] = _strip_spaces(tuple(want[section])) == _strip_spaces(tuple(have[section]))
                extra["longest_sequence_qualifier"] = max((len(x) for p in want[section] for x in p[1:4]), default=0)
            if section == "candidates":
                extra["same_when_twins_are_not_told_apart"] = _by_coordinates_only(want[section]) == _by_coordinates_only(have[section])
            ctx.violate("reload-content:" + section.replace(" ", "-"),
                        dict(facts, **extra, only_in_parent=core.jsonable(only_parent[:2]),
                             only_in_reloaded=core.jsonable(only_file[:2]),
                             counts=[len(want[section]), len(have[section])]), case)


def check_header(ctx, view: RegionView, file_bio, log: Log):
    """ the provenance note of the extract names the window it was cut from """
    ctx.count("op:header-window")
    geo = view.geo
    comment = file_bio.annotations.get("structured_comment", {}).get("antiSMASH-Data", {})
    end = geo.parts[1][1] if geo.crosses else geo.start + geo.length
    if str(comment.get("Orig. start")) != str(geo.start) or str(comment.get("Orig. end")) != str(end):
        log.violate("header-window", {"orig_start": comment.get("Orig. start"), "orig_end": comment.get("Orig. end"),
                                      "window": [geo.start, end]})
    ctx.count("header:topology-" + str(file_bio.annotations.get("topology")) + ("-of-origin-spanning-window" if geo.crosses else ""))


def check_unchanged(ctx, which, before, after, facts, case):
    ctx.count("op:parent-unchanged:" + which)
    if before == after:
        return True
    changes = X.diff_dump(before, after)
    types = sorted({c.get("type", c["section"]) for c in changes})
    what = sorted({w for c in changes for w in c.get("what", [c["section"]])})
    ctx.violate("parent-changed:" + which,
                dict(facts, changed_feature_types=types, changed=what,
                     changed_features_cross_origin=all(c.get("spans_origin") is True for c in changes),
                     examples=changes[:2]), case)
    return False


# --------------------------------------------------------------------------
# one world
# --------------------------------------------------------------------------

def run_world(ctx, world, workdir):
    case = world
    try:
        record, skipped = build_record(world)
    except (ValueError, AssertionError) as err:
        # the layout is refused while areas are formed (C05/C06's subject); anything else reaches the guard
        ctx.count("gen:world-refused-by-antismash")
        ctx.count("gen:refused:" + type(err).__name__)
        return None
    if skipped:
        ctx.count("gen:prepeptide-not-placed-gene-outside-regions", skipped)
    regions = record.get_regions()
    if not regions:
        ctx.count("gen:no-regions")
        return None
    length = len(record.seq)
    parent_seq = record.seq
    mode = world["mode"]
    ctx.count("mode:" + mode)
    reference = record.to_biopython()          # pristine view of the parent, never handed to the code under test
    add_comment_like_main(reference)           # (annotations are shared with the record, as in main)
    shared = record.to_biopython() if mode == "shared" else None
    secmet_before = X.dump_biopython(record.to_biopython())
    nontrivial = False
    summary = []
    for region in regions:
        view = RegionView(record, region, reference, world)
        if not view.geo.ok:
            ctx.count("gen:region-shape-not-a-window")
            continue
        geo = view.geo
        facts = view.facts(len(regions), mode)
        classify_region(ctx, view, record)
        if view.number > 1 or geo.crosses:
            nontrivial = True
        summary.append({"region": str(region.location), "candidates": len(view.candidates),
                        "subregions": len(view.subregions), "features_inside": len(view.inside)})
        if shared is not None:
            bio_before = X.dump_biopython(shared)
        filename = os.path.join(workdir, f"region{view.number:03d}.gbk")
        try:
            if shared is not None:
                region.write_to_genbank(filename=filename, record=shared)
            else:
                region.write_to_genbank(filename=filename)
        except Exception as err:  # pylint: disable=broad-except
            ctx.violate("write-crash", dict(facts, **core.crash_facts(err)), case)
            if shared is not None and not check_unchanged(ctx, "biopython", bio_before, X.dump_biopython(shared), facts, case):
                shared = record.to_biopython()
            continue
        # --- the parent must be as it was ----------------------------------------------------------
        if shared is not None:
            if not check_unchanged(ctx, "biopython", bio_before, X.dump_biopython(shared), facts, case):
                shared = record.to_biopython()      # judge the next region on its own
        secmet_after = X.dump_biopython(record.to_biopython())
        if not check_unchanged(ctx, "secmet", secmet_before, secmet_after, facts, case):
            secmet_before = secmet_after
        # --- the file ---------------------------------------------------------------------------------
        try:
            file_bio = SeqIO.read(filename, "genbank")
        except Exception as err:  # pylint: disable=broad-except
            ctx.violate("file-unreadable", dict(facts, **core.crash_facts(err)), case)
            continue
        if geo.crosses and geo.length == length:
            facts["window_is_whole_ring_with_seam_off_origin"] = True
            facts["extract_is_empty"] = len(file_bio.seq) == 0 and not file_bio.features
        ctx.count("op:file-sequence")
        if str(file_bio.seq) != geo.expected_sequence(str(parent_seq)):
            ctx.violate("file-sequence", dict(facts, file_length=len(file_bio.seq), region_length=geo.length), case)
        log = Log(ctx, facts, case)
        check_header(ctx, view, file_bio, log)
        pairs = pair_features(ctx, view, file_bio, log)
        check_pairs(ctx, pairs, parent_seq, file_bio.seq, log)
        check_numbers_and_references(ctx, view, pairs, file_bio, log)
        check_reload(ctx, view, record, file_bio, log, case)
    # --- history: the record gains a feature inside a region after its file was written; the file written next (per
    # call, as the first time) has to show the record as it is now, not as it was at the first conversion
    if mode == "per-call":
        for region in regions:
            if region.crosses_origin() or len(region.location) < 12:
                continue
            start = int(region.location.start) + 2
            marker = Feature(FeatureLocation(start, start + 6, 1), feature_type="misc_feature")
            marker.notes.append("added after the first write")
            facts = {"history": "feature added to the record between two per-call writes of the region",
                     "region": str(region.location), "mode": mode, "added": str(marker.location)}
            filename = os.path.join(workdir, "region-second-write.gbk")
            try:
                region.write_to_genbank(filename=filename)      # (nothing else is written between the two writes)
                record.add_feature(marker)
                region.write_to_genbank(filename=filename)
                file_bio = SeqIO.read(filename, "genbank")
            except Exception as err:  # pylint: disable=broad-except
                ctx.violate("write-crash", dict(facts, **core.crash_facts(err)), case)
                break
            ctx.count("history:second-write-after-record-gained-a-feature")
            shift = int(region.location.start)
            found = [f for f in file_bio.features if f.type == "misc_feature"
                     and "added after the first write" in f.qualifiers.get("note", [])]
            if len(found) != 1 or (int(found[0].location.start), int(found[0].location.end)) != (start - shift, start + 6 - shift):
                ctx.violate("feature-missing-from-file", dict(facts, found=[str(f.location) for f in found]), case)
            break
    ctx.case(W.world_key(world), nontrivial=nontrivial,
             sample={"L": length, "circular": world["circular"], "origin": world["origin_kind"], "mode": mode,
                     "genes": len(world["genes"]), "protoclusters": len(world["protoclusters"]),
                     "subregions": len(world["subregions"]), "regions": summary})
    return record


def classify_region(ctx, view: RegionView, record):
    geo = view.geo
    ctx.count("region:first" if view.number == 1 else "region:later")
    if geo.crosses and geo.length == view.length:
        ctx.count("region:whole-ring-with-seam-off-origin")
    if geo.crosses:
        ctx.count("region:spans-origin")
        if any(f.type == "CDS" and geo.side(f.location) == "crossing" for f in view.inside):
            ctx.count("region:spans-origin+gene-spans-origin")
        if any(f.type in ("protocluster", "subregion", "proto_core") and geo.side(f.location) == "crossing"
               for f in view.inside):
            ctx.count("region:spans-origin+area-spans-origin")
        if any(f.type == "CDS" and len(f.location.parts) > 1 and geo.side(f.location) == "post-origin" for f in view.inside):
            ctx.count("region:spans-origin+multi-exon-gene-after-origin")
    else:
        if geo.start == 0:
            ctx.count("region:touches-start")
        if geo.start + geo.length == view.length:
            ctx.count("region:touches-end")
        if geo.start == 0 and geo.length == view.length:
            ctx.count("region:whole-record")
    if len(view.candidates) >= 2:
        ctx.count("region:candidates>=2")
    if len(view.subregions) >= 2:
        ctx.count("region:subregions>=2")
    if view.subregions and not view.candidates:
        ctx.count("region:subregion-only")
    if view.subregions and view.candidates:
        ctx.count("region:candidates+subregions")
    if view.proto_numbers and view.proto_numbers[0] > 1:
        ctx.count("region:first-protocluster-number>1")
    if view.sub_numbers and view.sub_numbers[0] > 1:
        ctx.count("region:first-subregion-number>1")
    twins = collections.Counter(tuple(X.intervals(a.location)) for a in view.protoclusters)
    if any(v > 1 for v in twins.values()):
        ctx.count("region:with-identical-coordinate-protoclusters")
    if any(type(p).__name__ == "SideloadedProtocluster" for p in view.protoclusters):
        ctx.count("region:with-sideloaded-protocluster")
    prepeptides = [f for f in view.inside if f.type == "CDS_motif" and f.qualifiers.get("prepeptide") == ["core"]]
    if prepeptides:
        ctx.count("region:with-prepeptide")
        if any(geo.side(f.location) == "post-origin" for f in prepeptides):
            ctx.count("region:with-prepeptide-after-origin")
    if any(f.type in ("CDS_motif", "aSDomain", "PFAM_domain") and "prepeptide" not in f.qualifiers for f in view.inside):
        ctx.count("region:with-motifs-or-domains")
    if view.cut:
        ctx.count("feature:cut-by-region-border", len(view.cut))
        if any(f.type == "CDS" and X.spans_origin(f.location) for f in view.cut):
            ctx.count("feature:origin-spanning-gene-cut-by-region-border")


def write_outputs_glue(ctx, worlds, workdir):
    """ the region files as a run writes them: main.write_outputs converts every record of the run once and hands
        each region its record's conversion; records that were skipped (too short, beyond --limit, nothing
        detected) sit between the others """
    import antismash.main as main_module
    from antismash.common import serialiser
    from antismash.config import build_config, destroy_config
    outdir = os.path.join(workdir, "run")
    shutil.rmtree(outdir, ignore_errors=True)
    os.makedirs(outdir)
    records = []
    for k, world in enumerate(worlds):
        if k % 2 == 0:
            short = Record(Seq("ACGT" * (10 + k)), transl_table=11)
            short.id = short.name = f"skipped{k}"
            short.annotations.update({"molecule_type": "DNA", "topology": "linear"})
            short.record_index = len(records) + 1
            short.skip = "smaller than minimum length (1000)"
            records.append(short)
        try:
            record, _ = build_record(world)
        except (ValueError, AssertionError):
            continue
        if not record.get_regions():
            continue
        # identifiers are unique within a run, names need not be (shortened contig names, equal LOCUS names)
        record.id = f"c12rec{k}"
        record.name = "c12rec"
        record.annotations["accessions"] = [record.id]
        record.record_index = len(records) + 1
        records.append(record)
    with_regions = [r for r in records if not r.skip]
    if len(with_regions) < 2:
        ctx.count("glue:too-few-records-with-regions")
        return
    case = {"glue": "write_outputs", "worlds": worlds}
    destroy_config()
    try:
        options = build_config(["--minimal", "--no-zip-output", "--output-dir", outdir], isolated=True,
                               modules=main_module.get_all_modules())
        results = serialiser.AntismashResults("input.gbk", records, [{} for _ in records], "verif")
        ctx.count("glue:write_outputs")
        ok, _ = ctx.guard("write-outputs-crash", case, main_module.write_outputs, results, options)
        if not ok:
            return
        for record in records:
            for region in record.get_regions():
                ctx.count("glue:region-file")
                number = region.get_region_number()
                filename = os.path.join(outdir, f"{record.id}.region{number:03d}.gbk")
                facts = {"record": record.id, "region": str(region.location), "records_of_the_run": [r.id for r in records],
                         "skipped": [r.id for r in records if r.skip]}
                try:
                    file_bio = SeqIO.read(filename, "genbank")
                except Exception as err:  # pylint: disable=broad-except
                    ctx.violate("run-region-file-unreadable", dict(facts, **core.crash_facts(err)), case)
                    continue
                expected = "".join(str(record.seq[int(part.start):int(part.end)]) for part in region.location.parts)
                if str(file_bio.seq).upper() != expected.upper():
                    ctx.violate("run-region-file-holds-its-regions-sequence",
                                dict(facts, file_length=len(file_bio.seq), region_length=len(expected),
                                     file_id=file_bio.id), case)
                elif not any(f.type == "region" for f in file_bio.features):
                    ctx.violate("run-region-file-holds-its-region-feature", facts, case)
        extra = sorted(name for name in os.listdir(outdir) if ".region" in name and name.startswith("skipped"))
        if extra:
            ctx.violate("skipped-record-gets-no-region-file", {"files": extra}, case)
    finally:
        destroy_config()


def run(ctx):
    logging.disable(logging.ERROR)   # antiSMASH logs refused worlds (overlapping regions); they are counted instead
    workdir = tempfile.mkdtemp(prefix="vf-c12-")
    try:
        n = ctx.quota(400, 12000)
        recent = []
        for i in ctx.cases(n, every=4):
            rng = ctx.rng("world", i)
            size = "large" if (ctx.tier == "thorough" and i % 10 == 0) else ("plasmid" if i % 10 == 5 else "normal")
            world = W.gen_world(rng, size)
            run_world(ctx, world, workdir)
            recent = (recent + [world])[-3:]
            if i % 40 == 39:
                ctx.guard("harness-or-crash", {"glue": "write_outputs", "worlds": recent}, write_outputs_glue, ctx,
                          list(recent), workdir)
    finally:
        shutil.rmtree(workdir, ignore_errors=True)


def replay(ctx, case):
    workdir = tempfile.mkdtemp(prefix="vf-c12-")
    try:
        if case.get("glue") == "write_outputs":
            write_outputs_glue(ctx, case["worlds"], workdir)
            return
        run_world(ctx, case, workdir)
    finally:
        shutil.rmtree(workdir, ignore_errors=True)


# --------------------------------------------------------------------------
# known deviations of the current tree (narrow, mechanism-keyed); entries in notes/agents/C12-findings.json
# --------------------------------------------------------------------------

_REGION_REFERENCES = {"xref:candidate_cluster_numbers", "xref:subregion_numbers"}
_SEGMENT_REFERENCES = {"xref:leader_location", "xref:tail_location"}


@findings.classifier("c12_region_feature_numbers_not_adjusted")
def _c12_region_numbers(clause, facts):
    """ _adjust_features compares the feature type with AbstractRegion.FEATURE_TYPE (""), so the region feature
        keeps the parent's candidate_cluster_numbers, and subregion_numbers are never adjusted at all: in every
        region whose first candidate / subregion is not number 1 the references lead nowhere or to other members.
        Must not hide: a wrong reference from a region whose members start at 1, a reference that was changed
        (to anything), wrong protocluster/candidate/subregion numbers or wrong 'protoclusters' references. """
    if clause == "xref:candidate_cluster_numbers":
        return facts.get("numbers_left_as_in_parent") is True and facts.get("first_candidate_number_is_1") is False
    if clause == "xref:subregion_numbers":
        return facts.get("numbers_left_as_in_parent") is True and facts.get("first_subregion_number_is_1") is False
    return False


@findings.classifier("c12_segment_location_not_wrapped")
def _c12_segment_wrap(clause, facts):
    """ _adjust_motif subtracts the window start without the wrap point: leader/tail locations lying after the
        origin inside an origin-spanning region become negative. Must not hide: a wrong leader/tail location in a
        region that does not span the origin, or of a segment lying wholly before the origin. """
    return (clause in _SEGMENT_REFERENCES and facts.get("region_spans_origin") is True
            and facts.get("segment_reaches_past_origin") is True and "problem" not in facts)


@findings.classifier("c12_origin_spanning_region_keeps_parent_numbering")
def _c12_rotated_numbering(clause, facts):
    """ numbers are shifted by the smallest parent number only. The members of an origin-spanning region sit at
        both ends of the parent's numbering (gaps survive) and appear in the extract in rotated order, while the
        loader resolves references by position: numbers are not 1..n and/or references resolve to other members
        after loading. Must not hide: gaps or wrong members in regions that do not span the origin, or in
        origin-spanning regions whose members keep their relative order and contiguous numbers. """
    if facts.get("region_spans_origin") is not True:
        return False
    gaps = not (facts.get("protocluster_numbers_contiguous") and facts.get("candidate_numbers_contiguous")
                and facts.get("subregion_numbers_contiguous"))
    if clause.startswith("numbering:"):
        kind = clause.split(":")[1]
        return facts.get(kind + "_numbers_contiguous") is False and facts.get("problem") == "not 1..n" \
            and facts.get("file_numbers") == facts.get("parent_numbers")
    if clause.startswith("reload-"):
        if not (gaps or facts.get("area_order_in_extract_differs_from_parent") is True):
            return False
        # what mis-resolved members can change: the areas themselves, and, only when the region comes out with
        # another extent, what lies inside it
        section = clause.split(":", 1)[1] if ":" in clause else ""
        if section in ("genes", "gene-details", "prepeptides", "motifs", "domains") \
                and facts.get("reloaded_region_extent_differs") is not True:
            return False
        # nothing else may be wrong in the file that is not itself accounted for
        return not facts.get("file_level_failures") or facts.get("file_level_failures_all_known") is True
    return False


@findings.classifier("c12_cut_origin_spanning_feature_kept")
def _c12_cut_spanning(clause, facts):
    """ _build_record_from_cross_origin gathers every origin-spanning feature of the record, also those only
        partly inside the origin-spanning region; they are written with coordinates outside the extract.
        Must not hide: an invalid/unexpected feature of a type of which no origin-spanning parent feature is cut by
        the border, or anything in regions that do not span the origin. """
    return (clause in ("feature-location-invalid", "feature-unexpected") and facts.get("region_spans_origin") is True
            and facts.get("origin_spanning_parent_feature_of_type_cut_by_border") is True)


@findings.classifier("c12_shared_record_qualifiers_rewritten")
def _c12_parent_qualifiers(clause, facts):
    """ the origin-spanning features of the SeqRecord handed in are put into the extract as they are, so
        _adjust_features rewrites their qualifiers in the caller's record; only locations are restored afterwards.
        Must not hide: a changed location, sequence, annotation or feature count, a change to a feature that does not
        span the origin, a change of the secmet record, or a change to qualifiers other than the adjusted ones. """
    if clause != "parent-changed:biopython" or facts.get("region_spans_origin") is not True:
        return False
    allowed = {"qualifier:" + q for q in ADJUSTED}
    return facts.get("changed_features_cross_origin") is True and set(facts.get("changed", ["?"])) <= allowed \
        and set(facts.get("changed_feature_types", ["?"])) <= AREA_TYPES | {"CDS_motif"}


@findings.classifier("c12_feature_across_the_seam_left_out")
def _c12_across_the_seam(clause, facts):
    """ an origin-spanning region that leaves out only a short stretch of the record holds, part by part, a feature
        whose gap (an intron) contains that stretch: the feature is one of the region's, yet its parts lie at the two
        ends of the linear extract in the wrong order and it is not written. Must not hide: a missing feature of one
        part, one that goes over the origin, one with all parts on one side, or anything in other regions. """
    if clause.startswith("reload-content:"):
        # the reloaded file then lacks that gene and what sits on it, and nothing else: every deviation of the file
        # was of this kind, and the areas and the extent of the region are as they were
        return (clause.split(":", 1)[1] in ("genes", "gene-details", "prepeptides", "motifs", "domains")
                and facts.get("file_level_failures") == ["feature-missing-or-moved"]
                and facts.get("file_level_failures_all_known") is True and facts.get("region_spans_origin") is True
                and facts.get("reloaded_region_extent_differs") is not True)
    return (clause == "feature-missing-or-moved" and facts.get("region_spans_origin") is True
            and facts.get("multipart") is True and facts.get("feature_straddles_the_stretch_outside_the_region") is True)


@findings.classifier("c12_consequence_of_known_file_deviation")
def _c12_consequence(clause, facts):
    """ a file that already deviates in known ways (all its file-level deviations were attributed to known
        findings) does not load or loads differently. Must not hide: a failing/different reload of a file in which
        nothing, or anything unaccounted for, was wrong. """
    return clause.startswith("reload-") and facts.get("file_level_failures_all_known") is True \
        and bool(facts.get("file_level_failures"))


@findings.classifier("c12_twin_areas_swap_on_load")
def _c12_twins(clause, facts):
    """ Record.add_protocluster/add_subregion insert with bisect_left, so areas with identical coordinates come
        out of the loader in reverse file order and positional references land on the twin. Must not hide: a
        candidate whose members differ by more than the identity of twins, or any difference in a region without
        identical-coordinate areas. """
    return (clause == "reload-content:candidates" and facts.get("areas_with_identical_coordinates") is True
            and facts.get("same_when_twins_are_not_told_apart") is True and not facts.get("file_level_failures"))


@findings.classifier("c12_extract_is_one_multipart_feature")
def _c12_single_gene_region(clause, facts):
    """ Record.from_biopython refuses any multi-part feature running from the first to the last base of a linear
        record as 'origin spanning'; an extract consisting of exactly one multi-exon gene is such a record.
        Must not hide: any other reason for a file not loading. """
    return (clause == "reload-fails" and facts.get("multipart_feature_from_first_to_last_base_of_extract") is True
            and "origin spanning exon while in a linear record" in facts.get("message", "")
            and not facts.get("file_level_failures"))


@findings.classifier("c12_long_prepeptide_sequence_gains_space")
def _c12_prepeptide_space(clause, facts):
    """ leader/core/tail sequence qualifiers longer than a GenBank line are wrapped by the writer and joined with
        a space by Biopython's parser; Prepeptide.from_biopython keeps the space. Must not hide: any other
        difference in prepeptides (coordinates, segments, missing ones) or a difference of short sequences. """
    return (clause == "reload-content:prepeptides" and facts.get("differs_only_by_spaces_in_sequences") is True
            and facts.get("longest_sequence_qualifier", 0) > 40)
