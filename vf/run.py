"""python -m vf.run <ID> [--tier quick|thorough] [--seed N] [--replay file] [--worker i/N --out file]"""
from __future__ import annotations

import argparse
import importlib
import json
import os
import subprocess
import sys
import tempfile
import time

from vf import core

WATCHDOG_S = {"quick": 600, "thorough": 3600}


def main() -> int:
    parser = argparse.ArgumentParser()
    parser.add_argument("pid")
    parser.add_argument("--tier", default=os.environ.get("VERIF_TIER", "quick"), choices=["quick", "thorough"])
    parser.add_argument("--seed", type=int, default=int(os.environ.get("VERIF_SEED", "0") or 0))
    parser.add_argument("--replay")
    parser.add_argument("--worker")
    parser.add_argument("--out")
    parser.add_argument("--workers", type=int, default=int(os.environ.get("VERIF_WORKERS", "0") or 0))
    args = parser.parse_args()
    pid = args.pid.upper()
    module = importlib.import_module(f"vf.checks.{pid.lower()}")

    if args.replay:
        with open(args.replay, encoding="utf-8") as handle:
            data = json.load(handle)
        ctx = core.Ctx(pid, data.get("tier", "quick"), data.get("seed", 0))
        if not hasattr(module, "replay"):
            print(f"[{pid}] no replay support; case follows")
            print(json.dumps(data, indent=1)[:4000])
            return 0
        module.replay(ctx, data["case"])
        print(f"[{pid}] replay: violations={ctx.violation_count} known={ {k: v['count'] for k, v in ctx.known.items()} }")
        for v in ctx.violations[:5]:
            print("  ", json.dumps(v)[:600])
        return 1 if ctx.violation_count else 0

    if args.worker:
        idx, total = (int(x) for x in args.worker.split("/"))
        ctx = core.Ctx(pid, args.tier, args.seed, worker=idx, nworkers=total)
        module.run(ctx)
        with open(args.out, "w", encoding="utf-8") as handle:
            json.dump(ctx.to_partial(), handle)
        return 0

    parallel = args.tier == "thorough" and getattr(module, "PARALLEL", True)
    if not parallel:
        ctx = core.Ctx(pid, args.tier, args.seed)
        module.run(ctx)
        return ctx.finish(module)

    nworkers = args.workers or getattr(module, "WORKERS", 0) or min(16, os.cpu_count() or 4)
    ctx = core.Ctx(pid, args.tier, args.seed, nworkers=nworkers)
    os.makedirs(core.WORK_DIR, exist_ok=True)
    with tempfile.TemporaryDirectory(dir=core.WORK_DIR) as tmp:
        procs = []
        for i in range(nworkers):
            out = os.path.join(tmp, f"w{i}.json")
            cmd = [sys.executable, "-X", "faulthandler", "-m", "vf.run", pid, "--tier", args.tier,
                   "--seed", str(args.seed), "--worker", f"{i}/{nworkers}", "--out", out]
            log = open(os.path.join(tmp, f"w{i}.log"), "w", encoding="utf-8")
            procs.append((subprocess.Popen(cmd, stdout=log, stderr=subprocess.STDOUT), out, log))
        deadline = time.monotonic() + WATCHDOG_S[args.tier]
        failed = []
        for i, (proc, out, log) in enumerate(procs):
            try:
                proc.wait(timeout=max(1, deadline - time.monotonic()))
            except subprocess.TimeoutExpired:
                proc.kill()
                failed.append(f"worker {i} watchdog")
            log.close()
            if proc.returncode != 0 or not os.path.exists(out):
                with open(log.name, encoding="utf-8") as handle:
                    tail = handle.read()[-1500:]
                failed.append(f"worker {i} rc={proc.returncode}: {tail}")
                continue
            with open(out, encoding="utf-8") as handle:
                ctx.merge_partial(json.load(handle))
    if failed:
        # a dead worker is inconclusive, never a verdict on the code under test
        ctx.counters["workers_failed"] = len(failed)
        rc = ctx.finish(module)
        for f in failed:
            print(f"INCONCLUSIVE property={pid} {f}")
        return rc if rc == 1 else 2
    return ctx.finish(module)


if __name__ == "__main__":
    sys.exit(main())
