"""Known findings: committed list (known_findings.json, read-only at run time) + classifiers.

An entry suppresses a deviation only when its classifier - a predicate over the failed clause
and structural facts of the violating case, never over seeds, hashes or indices - matches.
Entries with status "fixed" suppress nothing.
"""
from __future__ import annotations

import json
import os

_PATH = os.path.join(os.path.dirname(os.path.dirname(os.path.abspath(__file__))), "known_findings.json")
_CACHE: dict | None = None

CLASSIFIERS: dict = {}


def classifier(name):
    def register(fn):
        CLASSIFIERS[name] = fn
        return fn
    return register


def _load() -> dict:
    global _CACHE
    if _CACHE is None:
        with open(_PATH, encoding="utf-8") as handle:
            data = json.load(handle)
        _CACHE = {}
        entries_list = list(data["findings"])
        # development aid for check authors: extra entries from a side file (never used by MANIFEST commands)
        extra = os.environ.get("VERIF_EXTRA_FINDINGS")
        if extra and os.path.exists(extra):
            with open(extra, encoding="utf-8") as handle:
                entries_list.extend(json.load(handle))
        for entry in entries_list:
            _CACHE.setdefault(entry["property"], {})[entry["id"]] = entry
    return _CACHE


def entries(pid: str) -> dict:
    return _load().get(pid, {})


def classify(pid: str, clause: str, facts: dict):
    if os.environ.get("VERIF_NO_KNOWN"):
        return None
    for fid, entry in entries(pid).items():
        if entry.get("status") != "known":
            continue
        fn = CLASSIFIERS.get(entry["classifier"])
        if fn is not None and fn(clause, facts):
            return fid
    return None


# ---------------------------------------------------------------------------
# classifiers (one per mechanism); each states what it must not hide
# ---------------------------------------------------------------------------


@classifier("c04_distance_interleaved")
def _c04_distance_interleaved(clause, facts):
    """ one operand lies inside an intron of the other (spans intersect, base sets do not):
        the code measures between extreme coordinates. Must not hide: any wrong distance between
        locations whose spans are disjoint, or any wrong distance for overlapping base sets. """
    return clause == "distance-is-gap" and facts.get("interleaved") is True and facts.get("any_multipart") is True


@classifier("c04_extend_multiexon_selflap")
def _c04_extend_multiexon_selflap(clause, facts):
    """ a multi-exon origin-spanning location extended so far that both extensions run into the
        location itself gives overlapping parts. Must not hide: ill-formed results for single-part
        or contiguous two-part inputs, or for extensions that do not self-lap. """
    return (clause.startswith("extend-wellformed:") and facts.get("self_lapping") is True
            and (facts.get("has_introns") is True or facts.get("parts", 0) >= 3)      # several exons, touching or not
            and facts.get("any_bridging") is True)
