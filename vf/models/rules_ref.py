"""Reference semantics of the detection-rule language, written from the module docstring of
antismash/common/hmm_rule_parser/rule_parser.py (grammar block + prose), independent of its code.

AST (JSON-able lists):
  ["id", name] | ["not", x] | ["and", [x, ...]] | ["or", [x, ...]] | ["cds", x]
  | ["min", n, [names]] | ["score", name, s]

Evaluation context for one record layout:
  hits:   {gene: {profile: bitscore}}
  nearby: {gene: [other genes with distance < cutoff]}   (computed by the caller on the ring model)
"""
from __future__ import annotations

import re
from typing import Optional

# ----------------------------------------------------------------------------
# evaluation
# ----------------------------------------------------------------------------


def evaluate(ast, gene: str, hits: dict, nearby: dict, local: bool = False) -> bool:
    kind = ast[0]
    own = hits.get(gene, {})
    if kind == "id":
        if ast[1] in own:
            return True
        if local:
            return False
        return any(ast[1] in hits.get(o, {}) for o in nearby[gene])
    if kind == "not":
        return not evaluate(ast[1], gene, hits, nearby, local)
    if kind == "and":
        return all(evaluate(x, gene, hits, nearby, local) for x in ast[1])
    if kind == "or":
        return any(evaluate(x, gene, hits, nearby, local) for x in ast[1])
    if kind == "cds":
        if evaluate(ast[1], gene, hits, nearby, True):
            return True
        if local:
            return False
        return any(evaluate(ast[1], o, hits, nearby, True) for o in nearby[gene])
    if kind == "min":
        total = sum(len(set(ast[2]) & set(hits.get(o, {}))) for o in [gene] + list(nearby[gene]))
        return total >= ast[1]
    if kind == "score":
        return any(ast[1] in hits.get(o, {}) and hits[o][ast[1]] >= ast[2] for o in [gene] + list(nearby[gene]))
    raise ValueError(f"unknown node {kind}")


def reasons(ast, gene: str, hits: dict) -> set:
    """ the rule's profiles that hit the gene itself and count as a reason """
    kind = ast[0]
    own = hits.get(gene, {})
    if kind == "id":
        return {ast[1]} & set(own)
    if kind == "not":
        return reasons(ast[1], gene, hits)
    if kind in ("and", "or"):
        out: set = set()
        for x in ast[1]:
            out |= reasons(x, gene, hits)
        return out
    if kind == "cds":
        if evaluate(ast[1], gene, hits, {gene: []}, True):
            return reasons(ast[1], gene, hits)
        return set()
    if kind == "min":
        return set(ast[2]) & set(own)
    if kind == "score":
        return {ast[1]} if ast[1] in own and own[ast[1]] >= ast[2] else set()
    raise ValueError(f"unknown node {kind}")


def anchors(ast, gene: str, hits: dict, nearby: dict) -> bool:
    return evaluate(ast, gene, hits, nearby) and bool(reasons(ast, gene, hits))


def profiles(ast) -> set:
    kind = ast[0]
    if kind == "id":
        return {ast[1]}
    if kind in ("not", "cds"):
        return profiles(ast[1])
    if kind in ("and", "or"):
        out: set = set()
        for x in ast[1]:
            out |= profiles(x)
        return out
    if kind == "min":
        return set(ast[2])
    if kind == "score":
        return {ast[1]}
    raise ValueError(kind)


def has_positive(ast) -> bool:
    """ documented: rules cannot consist of entirely negated conditions; a negated group counts
        as negative whatever it contains """
    kind = ast[0]
    if kind == "not":
        return False
    if kind in ("and", "or"):
        return any(has_positive(x) for x in ast[1])
    if kind == "cds":
        return has_positive(ast[1])
    return True


def canonical(ast):
    """ removes representation only: single-child wrappers and nesting of the same associative
        operator inside a non-negated group; keeps cds boundaries and negation positions; operand
        order is kept (the language is order-insensitive in meaning, the parser keeps order) """
    kind = ast[0]
    if kind in ("id", "score"):
        return list(ast)
    if kind == "min":
        return ["min", ast[1], sorted(ast[2])]
    if kind == "not":
        return ["not", canonical(ast[1])]
    if kind == "cds":
        return ["cds", canonical(ast[1])]
    if kind in ("and", "or"):
        flat = []
        for x in ast[1]:
            c = canonical(x)
            if c[0] == kind:
                flat.extend(c[1])
            else:
                flat.append(c)
        if len(flat) == 1:
            return flat[0]
        return [kind, flat]
    raise ValueError(kind)


# ----------------------------------------------------------------------------
# independent parser of the documented grammar
# ----------------------------------------------------------------------------

class RefSyntaxError(Exception):
    pass


class Unspecified(Exception):
    """ the documentation does not say what this text means """


KEYWORDS = {"RULE", "CATEGORY", "DESCRIPTION", "EXAMPLE", "RELATED", "SUPERIORS", "CUTOFF", "NEIGHBOURHOOD",
            "CONDITIONS", "EXTENDERS", "DEFINE", "AS"}
WORDS = {"and", "or", "not", "minimum", "cds", "minscore"}
PUNCT = set("()[],.")
_ID_RE = re.compile(r"^[a-zA-Z0-9_-]*[a-zA-Z][a-zA-Z0-9_-]*$")


def tokenise(text: str) -> list[str]:
    tokens: list[str] = []
    for line in text.expandtabs().split("\n"):
        line = line.split("#", 1)[0]
        cur = ""
        for ch in line:
            if ch.isspace():
                if cur:
                    tokens.append(cur)
                cur = ""
            elif ch in PUNCT:
                if cur:
                    tokens.append(cur)
                cur = ""
                tokens.append(ch)
            elif ch.isalnum() or ch in "-_":
                cur += ch
            elif ch in ":/" and cur:
                cur += ch
            else:
                raise RefSyntaxError(f"unexpected character {ch!r}")
        if cur:
            tokens.append(cur)
    return tokens


def is_identifier(tok: str) -> bool:
    return (bool(_ID_RE.match(tok)) and tok not in KEYWORDS and tok not in WORDS
            and tok not in ("cluster", "score"))


def is_int(tok: str) -> bool:
    return tok.isdigit()


class RefRule:
    def __init__(self, name, category, cutoff, neighbourhood, conditions, superiors, related, extenders, description):
        self.name = name
        self.category = category
        self.cutoff = cutoff
        self.neighbourhood = neighbourhood
        self.conditions = conditions
        self.superiors = superiors
        self.related = related
        self.extenders = extenders
        self.description = description

    def as_dict(self):
        return {"name": self.name, "category": self.category, "cutoff": self.cutoff,
                "neighbourhood": self.neighbourhood, "conditions": canonical(self.conditions),
                "superiors": sorted(self.superiors), "related": list(self.related),
                "extenders": canonical(self.extenders) if self.extenders else None}


class RefParser:
    def __init__(self, text: str, signatures: set, categories: set, existing_rules: Optional[list] = None,
                 existing_aliases: Optional[dict] = None, cutoff_mult: float = 1.0, nb_mult: float = 1.0):
        self.signatures = set(signatures)
        self.categories = set(categories)
        self.rules: list[RefRule] = list(existing_rules or [])
        self.by_name = {r.name: r for r in self.rules}
        self.aliases: dict[str, list[str]] = dict(existing_aliases or {})
        self.cutoff_mult = cutoff_mult
        self.nb_mult = nb_mult
        self.toks = tokenise(text)
        self.pos = 0
        self.used_identifiers: set = set()
        self.extender_identifiers: set = set()
        if not self.toks:
            raise RefSyntaxError("no rules")
        while self.pos < len(self.toks):
            tok = self.toks[self.pos]
            if tok == "DEFINE":
                self.parse_alias()
            elif tok == "RULE":
                self.parse_rule()
            else:
                raise RefSyntaxError(f"expected RULE or DEFINE, found {tok}")
        unknown = self.used_identifiers - self.signatures
        if unknown:
            raise RefSyntaxError(f"unknown profiles {sorted(unknown)}")
        unknown = self.extender_identifiers - self.signatures
        if unknown:
            err = RefSyntaxError(f"unknown profiles in extenders {sorted(unknown)}")
            err.only_in_extenders = True
            raise err

    # token helpers with alias substitution ("textual substitution")
    def peek(self) -> Optional[str]:
        self._expand()
        return self.toks[self.pos] if self.pos < len(self.toks) else None

    def _expand(self) -> None:
        guard = 0
        while self.pos < len(self.toks) and self.toks[self.pos] in self.aliases and not self._no_alias:
            self.toks[self.pos:self.pos + 1] = self.aliases[self.toks[self.pos]]
            guard += 1
            if guard > 50:
                raise RefSyntaxError("alias loop")

    _no_alias = False

    def take(self, expected: Optional[str] = None) -> str:
        tok = self.peek()
        if tok is None:
            raise RefSyntaxError(f"unexpected end, expected {expected}")
        if expected is not None and tok != expected:
            raise RefSyntaxError(f"expected {expected}, found {tok}")
        self.pos += 1
        return tok

    def take_raw_identifier(self, what: str) -> str:
        """ an identifier that must not come from an alias """
        if self.pos >= len(self.toks):
            raise RefSyntaxError(f"unexpected end, expected {what}")
        tok = self.toks[self.pos]
        if tok in self.aliases:
            raise RefSyntaxError(f"alias used as {what}")
        if not is_identifier(tok):
            raise RefSyntaxError(f"expected identifier for {what}, found {tok}")
        self.pos += 1
        return tok

    def take_identifier(self) -> str:
        tok = self.peek()
        if tok is None or not is_identifier(tok):
            raise RefSyntaxError(f"expected identifier, found {tok}")
        self.pos += 1
        return tok

    def take_int(self) -> int:
        tok = self.peek()
        if tok is None or not is_int(tok):
            raise RefSyntaxError(f"expected integer, found {tok}")
        if len(tok) > 1 and tok[0] == "0" or tok == "0":
            self.unspecified_int = True
        self.pos += 1
        return int(tok)

    unspecified_int = False

    # grammar
    def parse_alias(self) -> None:
        self.take("DEFINE")
        name = self.take_raw_identifier("alias name")
        if name in self.signatures or name in self.by_name or name in self.categories:
            raise RefSyntaxError(f"alias {name} clashes")
        if name in self.aliases:
            raise RefSyntaxError(f"duplicate alias {name}")
        self.take("AS")
        body: list[str] = []
        while True:
            tok = self.peek()
            if tok is None or tok in KEYWORDS:
                break
            if not (tok in PUNCT or tok in WORDS or is_int(tok) or is_identifier(tok)):
                raise RefSyntaxError(f"text token {tok} in alias")
            body.append(tok)
            self.pos += 1
        if not body:
            raise RefSyntaxError("empty alias")
        self.aliases[name] = body

    def parse_rule(self) -> None:
        self.take("RULE")
        name = self.take_raw_identifier("rule name")
        self.take("CATEGORY")
        category = self.take_identifier()
        if category not in self.categories:
            raise RefSyntaxError(f"unknown category {category}")
        description = ""
        if self.peek() == "DESCRIPTION":
            self.pos += 1
            words = []
            while self.pos < len(self.toks) and self.toks[self.pos] not in KEYWORDS:
                words.append(self.toks[self.pos])
                self.pos += 1
            if self.pos >= len(self.toks):
                raise RefSyntaxError("end of input in description")
            description = " ".join(words)
        while self.peek() == "EXAMPLE":
            self.pos += 1
            if self.take_identifier() != "NCBI":
                raise Unspecified("the documentation does not list the valid example databases")
            self.take_identifier()
            self.take(".")
            self.take_int()
            rng = self.take()
            if not re.match(r"^\d+-\d+$", rng):
                raise RefSyntaxError("bad example range")
            while self.pos < len(self.toks) and self.toks[self.pos] not in KEYWORDS:
                self.pos += 1
            if self.pos >= len(self.toks):
                raise RefSyntaxError("end of input in example")
        related: list[str] = []
        if self.peek() == "RELATED":
            self.pos += 1
            related = self.parse_ids()
        superiors: set = set()
        if self.peek() == "SUPERIORS":
            self.pos += 1
            listed = self.parse_ids()
            if len(set(listed)) != len(listed):
                raise RefSyntaxError("duplicate superiors")
            for sup in listed:
                if sup not in self.by_name:
                    raise RefSyntaxError(f"superior {sup} not yet defined")
                superiors.add(sup)
                superiors.update(self.by_name[sup].superiors)
        self.take("CUTOFF")
        cutoff = self.take_int() * 1000
        self.take("NEIGHBOURHOOD")
        neighbourhood = self.take_int() * 1000
        self.take("CONDITIONS")
        start = self.pos
        conditions = self.parse_conditions(allow_cds=True)
        self._collect_identifiers(conditions)
        if not has_positive(conditions):
            raise RefSyntaxError("no positive requirement")
        extenders = None
        if self.peek() == "EXTENDERS":
            self.pos += 1
            if self.peek() == "cds":
                extenders = self.parse_cds()
            else:
                extenders = ["id", self.take_identifier()]
            if not has_positive(extenders):
                raise RefSyntaxError("no positive requirement in extenders")
            self.extender_identifiers |= profiles(extenders)
        nxt = self.peek()
        if nxt is not None and nxt not in ("RULE", "DEFINE"):
            raise RefSyntaxError(f"unexpected {nxt} after rule")
        if name in self.by_name:
            raise RefSyntaxError(f"duplicate rule {name}")
        rule = RefRule(name, category, int(cutoff * self.cutoff_mult), int(neighbourhood * self.nb_mult),
                       conditions, sorted(superiors), related, extenders, description)
        self.by_name[name] = rule
        self.rules.append(rule)
        del start

    def _collect_identifiers(self, ast) -> None:
        self.used_identifiers |= profiles(ast)

    def parse_ids(self) -> list[str]:
        ids = [self.take_identifier()]
        while self.peek() == ",":
            self.pos += 1
            ids.append(self.take_identifier())
        return ids

    def parse_conditions(self, allow_cds: bool):
        """ or-level: and binds tighter """
        ors = [self.parse_and_chain(allow_cds)]
        while self.peek() == "or":
            self.pos += 1
            ors.append(self.parse_and_chain(allow_cds))
        self._no_repeats(ors)
        return ors[0] if len(ors) == 1 else ["or", ors]

    def parse_and_chain(self, allow_cds: bool):
        ands = [self.parse_single(allow_cds)]
        while self.peek() == "and":
            self.pos += 1
            ands.append(self.parse_single(allow_cds))
        self._no_repeats(ands)
        return ands[0] if len(ands) == 1 else ["and", ands]

    @staticmethod
    def _no_repeats(operands) -> None:
        seen = []
        for op in operands:
            c = canonical(op)
            if c in seen:
                raise RefSyntaxError("repeated operand")
            seen.append(c)

    def parse_single(self, allow_cds: bool):
        negated = False
        if self.peek() == "not":
            self.pos += 1
            negated = True
        tok = self.peek()
        if tok is None:
            raise RefSyntaxError("rule ends in not / operator")
        if tok == "(":
            self.pos += 1
            inner = self.parse_conditions(allow_cds)
            self.take(")")
            # a group is a node of its own for negation; un-negated it is representation only
            node = inner
        elif tok == "minimum":
            if not allow_cds:
                raise RefSyntaxError("minimum inside cds")
            node = self.parse_minimum()
        elif tok == "cds":
            if not allow_cds:
                raise RefSyntaxError("cds inside cds")
            node = self.parse_cds()
        elif tok == "minscore":
            if not allow_cds:
                raise Unspecified("minscore inside cds is outside the documented grammar")
            node = self.parse_score()
        else:
            node = ["id", self.take_identifier()]
        return ["not", node] if negated else node

    def parse_minimum(self):
        self.take("minimum")
        self.take("(")
        count = self.take_int()
        if count < 1:
            raise RefSyntaxError("minimum count must be positive")
        self.take(",")
        self.take("[")
        ids = self.parse_ids()
        self.take("]")
        self.take(")")
        if len(set(ids)) != len(ids):
            raise RefSyntaxError("duplicate ids in minimum")
        return ["min", count, ids]

    def parse_score(self):
        self.take("minscore")
        self.take("(")
        name = self.take_identifier()
        self.take(",")
        score = self.take_int()
        self.take(")")
        return ["score", name, score]

    def parse_cds(self):
        self.take("cds")
        self.take("(")
        inner = self.parse_conditions(allow_cds=False)
        self.take(")")
        if inner[0] == "id" or (inner[0] == "not" and inner[1][0] == "id"):
            raise RefSyntaxError("cds needs more than a single identifier")
        return ["cds", inner]
