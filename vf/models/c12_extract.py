"""Reference side of C12: what "the same bases" means for a region extract, and canonical dumps.

Nothing of antiSMASH's algorithms is used: locations are read through `.parts`, `.start`, `.end`,
`.strand` only; location strings ("[3:9](+)", "join{[3:9](-), [1:2](-)}") are parsed by a small
parser of our own.

A location is reduced to its *runs*: maximal stretches of consecutive positions in iteration order
(the order Biopython's `extract` concatenates them in), as (first position, length, direction). On a
ring of length L consecutive is meant modulo L, so `join{[L-5:L], [0:7]}` and the single stretch it
becomes in a linearised extract have the same runs once mapped.
"""
from __future__ import annotations

import re

_PART = re.compile(r"\[<?(-?\d+):>?(-?\d+)\](?:\(([+\-?0])\))?")


def parse_location_string(text: str):
    """ -> list of (start, end, strand) in the order written; None if not understood """
    text = text.strip()
    inner = text
    if text.startswith("join{") and text.endswith("}"):
        inner = text[5:-1]
    elif "{" in text:
        return None
    parts = []
    pos = 0
    for piece in inner.split(", "):
        match = _PART.fullmatch(piece.strip())
        if not match:
            return None
        strand = {"+": 1, "-": -1, "?": None, "0": 0, None: None}[match.group(3)]
        parts.append((int(match.group(1)), int(match.group(2)), strand))
        pos += 1
    return parts or None


def raw_parts(location):
    return [(int(p.start), int(p.end), p.strand) for p in location.parts]


def runs_of_parts(parts, ring: int | None = None, offset: int = 0):
    """ canonical runs of [(start, end, strand)] in iteration order, every position shifted by
        `offset` (and taken modulo `ring` when given) """
    runs: list[list[int]] = []
    for start, end, strand in parts:
        direction = -1 if strand == -1 else 1
        first = (end - 1 if direction == -1 else start) + offset
        if ring:
            first %= ring
        length = end - start
        if runs:
            pfirst, plen, pdir = runs[-1]
            nxt = pfirst + pdir * plen
            if ring:
                nxt %= ring
            if pdir == direction and nxt == first:
                runs[-1][1] += length
                continue
        runs.append([first, length, direction])
    return tuple((a, b, c) for a, b, c in runs)


def runs(location, ring: int | None = None, offset: int = 0):
    return runs_of_parts(raw_parts(location), ring, offset)


def strand_of(location):
    strands = {p.strand for p in location.parts}
    strands = {1 if s in (None, 0) else s for s in strands}   # GenBank has no strandless features: written as forward
    return sorted(strands, key=str)[0] if len(strands) == 1 else "mixed"


def spans_origin(location) -> bool:
    """ travelling in iteration order the coordinate jumps back (forward strand) or forth (reverse strand) """
    return _parts_span_origin(raw_parts(location))


def _parts_span_origin(parts) -> bool:
    if len(parts) < 2:
        return False
    starts = [p[0] for p in parts]
    if parts[0][2] == -1:
        starts.reverse()
    return any(starts[i + 1] < starts[i] for i in range(len(starts) - 1))


def intervals(location):
    return [(int(p.start), int(p.end)) for p in location.parts]


def covers(outer: list[tuple[int, int]], inner: list[tuple[int, int]]) -> bool:
    """ base-set inclusion, outer given as disjoint intervals (adjacent ones are merged first) """
    merged: list[list[int]] = []
    for s, e in sorted(outer):
        if merged and s <= merged[-1][1]:
            merged[-1][1] = max(merged[-1][1], e)
        else:
            merged.append([s, e])
    return all(any(ms <= s and e <= me for ms, me in merged) for s, e in inner)


def touches(outer: list[tuple[int, int]], inner: list[tuple[int, int]]) -> bool:
    return any(s1 < e2 and s2 < e1 for s1, e1 in outer for s2, e2 in inner)


class Geometry:
    """ a region as a window on its parent: [start, start+length) travelling forward, modulo L when
        the window runs over the origin """
    def __init__(self, region_location, record_length: int, circular: bool):
        parts = intervals(region_location)
        self.record_length = record_length
        self.circular = circular
        self.parts = parts
        self.ok = True
        if len(parts) == 1:
            self.start, end = parts[0]
            self.crosses = False
            self.length = end - self.start
        elif len(parts) == 2 and circular and parts[0][1] == record_length and parts[1][0] == 0 \
                and parts[1][1] <= parts[0][0]:
            self.start = parts[0][0]
            self.crosses = True
            self.length = (record_length - self.start) + parts[1][1]
        else:
            self.ok = False
        self.ring = record_length if circular else None
        # an extract of a whole circular record keeps the ring (and origin-spanning features as they were)
        self.file_ring = record_length if (circular and self.ok and self.length == record_length) else None

    def expected_sequence(self, seq: str) -> str:
        if self.crosses:
            return seq[self.start:] + seq[:self.parts[1][1]]
        return seq[self.start:self.start + self.length]

    def contains(self, location) -> bool:
        return covers(self.parts, intervals(location))

    def overlaps(self, location) -> bool:
        return touches(self.parts, intervals(location))

    def side(self, location) -> str:
        """ where a contained location lies with respect to the origin inside a crossing window """
        if not self.crosses:
            return "n/a"
        ivs = intervals(location)
        pre = any(s >= self.start for s, _ in ivs)
        post = any(e <= self.parts[1][1] for _, e in ivs)
        if pre and post:
            return "crossing"
        return "pre-origin" if pre else "post-origin"

    def parent_runs_in_file(self, location):
        """ runs of a parent location, expressed in the coordinates of the extract """
        return runs(location, self.ring, -self.start)

    def parent_parts_in_file(self, parts):
        return runs_of_parts(parts, self.ring, -self.start)

    def file_runs(self, location):
        """ runs of a location of the extract (no ring there, unless the extract is a whole ring) """
        return runs(location, self.file_ring)

    def file_parts_runs(self, parts):
        return runs_of_parts(parts, self.file_ring)

    def in_bounds(self, location) -> bool:
        return all(0 <= int(p.start) < int(p.end) <= self.length for p in location.parts)


# --------------------------------------------------------------------------
# canonical dumps (strings/tuples only, so that later mutation of the dumped objects cannot hide)
# --------------------------------------------------------------------------

def _canon(value):
    if isinstance(value, dict):
        return tuple(sorted((str(k), _canon(v)) for k, v in value.items()))
    if isinstance(value, (list, tuple)):
        return tuple(_canon(v) for v in value)
    if isinstance(value, (str, int, float, bool)) or value is None:
        return value
    return repr(value)


def dump_feature(feature):
    operator = getattr(feature.location, "operator", None)
    return (feature.type, tuple(raw_parts(feature.location)), operator, str(feature.id),
            _canon({k: list(v) if isinstance(v, (list, tuple)) else v for k, v in feature.qualifiers.items()}))


def dump_biopython(bio) -> dict:
    return {
        "header": _canon({"id": bio.id, "name": bio.name, "description": bio.description,
                          "dbxrefs": list(bio.dbxrefs)}),
        "annotations": _canon(bio.annotations),
        "sequence": str(bio.seq),
        "features": tuple(dump_feature(f) for f in bio.features),
    }


def diff_dump(before: dict, after: dict) -> list[dict]:
    """ structural description of what changed """
    out = []
    for section in ("header", "annotations", "sequence"):
        if before[section] != after[section]:
            out.append({"section": section})
    if len(before["features"]) != len(after["features"]):
        out.append({"section": "features", "what": "count"})
        return out
    for old, new in zip(before["features"], after["features"]):
        if old == new:
            continue
        what = []
        if old[0] != new[0]:
            what.append("type")
        if old[1] != new[1] or old[2] != new[2]:
            what.append("location")
        if old[4] != new[4]:
            oldq, newq = dict(old[4]), dict(new[4])
            keys = sorted(k for k in set(oldq) | set(newq) if oldq.get(k) != newq.get(k))
            what.extend("qualifier:" + k for k in keys)
            values = {k: [str(oldq.get(k))[:60], str(newq.get(k))[:60]] for k in keys[:3]}
        else:
            values = {}
        out.append({"section": "features", "type": old[0], "what": what, "qualifier_before_after": values,
                    "spans_origin": _parts_span_origin(old[1]),
                    "location_before": str(old[1]), "location_after": str(new[1])})
    return out
