"""Canonical, JSON-able dump of an antiSMASH secmet Record - the observation used to compare records.

API (used by C10, C11, C12):

    dump(record, strandless_as_forward=False) -> dict       # everything observable about the record
    diff(a, b, limit=20) -> list[(path, value_in_a, value_in_b)]   # empty list == equal dumps
    feature_key(entry) -> str                                # how features are aligned between two dumps

Layout of the dump:
  "id", "name", "description", "dbxrefs", "topology" ("circular"/"linear"), "length", "seq",
  "annotations": header annotations (references rendered as dicts),
  "features": [ per feature, sorted by (type, location, class, name) ]
        {"class", "type", "location": str(location), "created_by_antismash", "codon_start",
         "notes": sorted notes (the notes attribute and a leftover "note" qualifier are the same thing),
         "qualifiers": what the feature would write: [{"type","location","qualifiers"}] of feature.to_biopython(),
         "leftover": the untyped qualifiers the object carries (feature._qualifiers without "note"),
         "attrs": class specific attributes read off the object, NOT through to_biopython:
                  CDS: translation, ids, product, transl_table, gene_functions, gene_kind, sec_met domains,
                       nrps_pks (type + domains with subtypes), modules (domain-id lists), region number
                  domains/motifs: domain_id, tool, locus_tag, label, domain, database, detection, evalue, score,
                       translation, protein_location, asf, subtypes, specificity, pfam identifier/version/
                       description/GO; prepeptides: leader/core/tail, class, subclass, masses
                  modules: domain ids, parent CDS names, type, flags, monomers
                  genes: locus_tag, gene_name}
  "areas": {"protoclusters": [...], "candidates": [...], "subregions": [...], "regions": [...]}
        every entry carries its number, location(s), own attributes, its CDS children ("cds": sorted names,
        "cds_sections": pre/cross/post origin sets, "cds_order": iteration order of cds_children), the number of
        the region it belongs to (resolved through the regions' member lists), and its cross references twice: as numbers and resolved to the identities of the members
        (protocluster identity = product|location|core|tool; candidate identity = kind|location|member identities).

`strandless_as_forward=True` renders strand None/0 as (+): GenBank text cannot express "no strand", so the
GenBank round trip is compared with it; the JSON round trip keeps strandless locations and is compared without.

Not part of the dump (runtime-only state that no writer claims to keep): CDSFeature.motifs (written to, never
read), CDSFeature.unique_id, NRPS/PKS domain predictions (re-added by module results), caches.
"""
from __future__ import annotations

from antismash.common.secmet.features import (
    AntismashDomain,
    CDSFeature,
    Gene,
    Module,
    PFAMDomain,
    Prepeptide,
    Protocluster,
)
from antismash.common.secmet.features.antismash_feature import AntismashFeature
from antismash.common.secmet.features.domain import Domain
from antismash.common.secmet.features.protocluster import SideloadedProtocluster
from antismash.common.secmet.features.subregion import SideloadedSubRegion


def _loc(location, forward=False) -> str:
    text = str(location)
    if not forward:
        return text
    # "[1:5]" -> "[1:5](+)", "[1:5](?)" -> "[1:5](+)"
    out = []
    for chunk in text.replace("(?)", "(+)").split(", "):
        closing = chunk.endswith("}")
        body = chunk[:-1] if closing else chunk
        if body.endswith("]"):
            body += "(+)"
        out.append(body + ("}" if closing else ""))
    return ", ".join(out)


def _plain(value):
    if value is None or isinstance(value, (str, int, float, bool)):
        return value
    if isinstance(value, dict):
        return {str(k): _plain(v) for k, v in value.items()}
    if isinstance(value, (list, tuple)):
        return [_plain(v) for v in value]
    if isinstance(value, (set, frozenset)):
        return sorted(_plain(v) for v in value)
    return str(value)


def _quals(qualifiers) -> dict:
    return {str(k): (None if v is None else [str(x) for x in v] if isinstance(v, (list, tuple)) else str(v))
            for k, v in sorted(qualifiers.items())}


def _written(feature, forward) -> list:
    out = feature.to_biopython()
    if not isinstance(out, list):
        out = [out]
    return [{"type": bio.type, "location": _loc(bio.location, forward), "qualifiers": _quals(bio.qualifiers)}
            for bio in out]


def _name(feature) -> str:
    """ a content based name, so that features with the same type and location are aligned by what they are """
    if isinstance(feature, Protocluster):
        return f"{feature.product}|{feature.core_location}|{feature.tool}"
    if feature.type == "cand_cluster":
        return f"{feature.kind}|" + ",".join(sorted(p.product for p in feature.protoclusters))
    if feature.type == "subregion":
        return f"{feature.tool}|{feature.label}"
    if isinstance(feature, Module):
        return ",".join(dom.get_name() for dom in feature.domains)
    for getter in ("get_name",):
        if hasattr(feature, getter):
            try:
                return str(getattr(feature, getter)())
            except Exception:  # pylint: disable=broad-except
                return ""
    return ""


def _cds_attrs(cds: CDSFeature, record) -> dict:
    region = cds.region
    return {
        "translation": cds.translation, "locus_tag": cds.locus_tag, "protein_id": cds.protein_id, "gene": cds.gene,
        "product": cds.product, "transl_table": cds.transl_table,
        "gene_functions": [[str(a.function), a.tool, a.description, a.product] for a in cds.gene_functions],
        "gene_kind": str(cds.gene_function),
        "sec_met": [d.to_json() for d in cds.sec_met.domains],
        "nrps_pks": {"type": cds.nrps_pks.type,
                     "domains": [[d.name, d.label, d.start, d.end, d.evalue, d.bitscore, d.feature_name,
                                  list(d.subtypes)] for d in cds.nrps_pks.domains]},
        "modules": sorted([dom.get_name() for dom in module.domains] for module in cds.modules),
        "region": region.get_region_number() if region is not None else None,
    }


def _antismash_feature_attrs(feature: AntismashFeature, forward) -> dict:
    attrs = {"domain_id": feature.domain_id, "tool": feature.tool, "locus_tag": feature.locus_tag,
             "label": feature.label, "database": feature.database, "detection": feature.detection,
             "evalue": feature.evalue, "score": feature.score, "translation": feature._translation
             if not isinstance(feature, Prepeptide) else feature.translation}
    if isinstance(feature, Domain):
        attrs["domain"] = feature.domain
        attrs["protein_location"] = [int(feature.protein_location.start), int(feature.protein_location.end)]
        attrs["asf"] = list(feature.asf.hits)
    if isinstance(feature, AntismashDomain):
        attrs["subtypes"] = list(getattr(feature, "subtypes", []) or [])
        try:
            attrs["specificity"] = list(feature.specificity or [])
        except AttributeError:
            attrs["specificity"] = []
    if isinstance(feature, PFAMDomain):
        attrs.update({"identifier": feature.identifier, "version": feature.version,
                      "description": feature.description,
                      "go": dict(sorted(feature.gene_ontologies.go_entries.items())) if feature.gene_ontologies else {}})
    if isinstance(feature, Prepeptide):
        attrs.update({"leader": feature.leader, "core": feature.core, "tail": feature.tail,
                      "peptide_class": feature.peptide_class, "peptide_subclass": feature.peptide_subclass,
                      "monoisotopic_mass": feature.monoisotopic_mass, "molecular_weight": feature.molecular_weight,
                      "alternative_weights": list(feature.alternative_weights)})
    return attrs


def _module_attrs(module: Module) -> dict:
    return {"domains": [dom.get_name() for dom in module.domains], "parents": list(module.parent_cds_names),
            "type": str(module.module_type), "complete": module.is_complete(), "starter": module.is_starter_module(),
            "final": module.is_final_module(), "iterative": module.is_iterative(),
            "monomers": [list(pair) for pair in module.monomers]}


def _feature_entry(feature, record, forward) -> dict:
    leftover = {k: v for k, v in feature._qualifiers.items() if k != "note"}  # pylint: disable=protected-access
    entry = {
        "class": type(feature).__name__, "type": feature.type, "location": _loc(feature.location, forward),
        "name": _name(feature),
        "created_by_antismash": feature.created_by_antismash,
        "codon_start": feature._original_codon_start,  # pylint: disable=protected-access
        "notes": sorted(list(feature.notes) + list(feature._qualifiers.get("note") or [])),  # pylint: disable=protected-access
        "qualifiers": _written(feature, forward),
        "leftover": _quals(leftover),
        "attrs": {},
    }
    if isinstance(feature, CDSFeature):
        entry["attrs"] = _cds_attrs(feature, record)
    elif isinstance(feature, AntismashFeature):
        entry["attrs"] = _antismash_feature_attrs(feature, forward)
    elif isinstance(feature, Module):
        entry["attrs"] = _module_attrs(feature)
    elif isinstance(feature, Gene):
        entry["attrs"] = {"locus_tag": feature.locus_tag, "gene_name": feature.gene_name}
    return entry


def feature_key(entry: dict) -> str:
    return f"{entry['type']}|{entry['location']}|{entry['class']}|{entry['name']}"


def _proto_identity(proto: Protocluster, forward) -> str:
    return f"{proto.product}|{_loc(proto.location, forward)}|{_loc(proto.core_location, forward)}|{proto.tool}"


def _cand_identity(cand, forward) -> str:
    members = ",".join(sorted(_proto_identity(p, forward) for p in cand.protoclusters))
    return f"{cand.kind}|{_loc(cand.location, forward)}|{members}"


def _sub_identity(sub, forward) -> str:
    return f"{sub.tool}|{sub.label}|{_loc(sub.location, forward)}"


def _children(collection) -> dict:
    """ CDS members: "cds" as a sorted set, the origin sections as sorted sets, and the iteration order """
    children = collection.cds_children
    return {"cds": sorted(cds.get_name() for cds in children),
            "cds_sections": {"pre_origin": sorted(cds.get_name() for cds in children.pre_origin),
                             "cross_origin": sorted(cds.get_name() for cds in children.cross_origin),
                             "post_origin": sorted(cds.get_name() for cds in children.post_origin)},
            "cds_order": [cds.get_name() for cds in children]}


def _region_of(record, area):
    """ number of the region an area belongs to, resolved through the regions' own member lists """
    for region in record.get_regions():
        for cand in region.candidate_clusters:
            if cand is area or any(proto is area for proto in cand.protoclusters):
                return region.get_region_number()
        if any(sub is area for sub in region.subregions):
            return region.get_region_number()
    return None


def _areas(record, forward) -> dict:
    protos = []
    for proto in record.get_protoclusters():
        protos.append({
            "number": proto.get_protocluster_number(), "class": type(proto).__name__,
            "location": _loc(proto.location, forward), "core_location": _loc(proto.core_location, forward),
            "product": proto.product, "category": proto.product_category, "tool": proto.tool,
            "cutoff": proto.cutoff, "neighbourhood": proto.neighbourhood_range, "rule": proto.detection_rule,
            "contig_edge": proto.contig_edge, **_children(proto),
            "definition_cds": sorted(cds.get_name() for cds in proto.definition_cdses),
            "t2pks": _quals(proto.t2pks.to_biopython_qualifiers()) if proto.t2pks else None,
            "extra_qualifiers": _quals(proto.extra_qualifiers) if isinstance(proto, SideloadedProtocluster) else None,
            "region": _region_of(record, proto),
        })
    cands = []
    for cand in record.get_candidate_clusters():
        cands.append({
            "number": cand.get_candidate_cluster_number(), "kind": str(cand.kind),
            "location": _loc(cand.location, forward), "core_location": _loc(cand.core_location, forward),
            "protoclusters": [p.get_protocluster_number() for p in cand.protoclusters],
            "members": sorted(_proto_identity(p, forward) for p in cand.protoclusters),
            "products": list(cand.products), "rules": list(cand.detection_rules),
            "smiles": cand.smiles_structure, "polymer": cand.polymer,
            "contig_edge": cand.contig_edge, **_children(cand), "region": _region_of(record, cand),
        })
    subs = []
    for sub in record.get_subregions():
        subs.append({
            "number": sub.get_subregion_number(), "class": type(sub).__name__, "location": _loc(sub.location, forward),
            "tool": sub.tool, "label": sub.label, "contig_edge": sub.contig_edge, **_children(sub),
            "extra_qualifiers": _quals(sub.extra_qualifiers) if isinstance(sub, SideloadedSubRegion) else None,
            "region": _region_of(record, sub),
        })
    regions = []
    for region in record.get_regions():
        regions.append({
            "number": region.get_region_number(), "location": _loc(region.location, forward),
            "candidates": [c.get_candidate_cluster_number() for c in region.candidate_clusters],
            "candidate_members": sorted(_cand_identity(c, forward) for c in region.candidate_clusters),
            "subregions": [s.get_subregion_number() for s in region.subregions],
            "subregion_members": sorted(_sub_identity(s, forward) for s in region.subregions),
            "products": list(region.products), "rules": list(region.detection_rules),
            "contig_edge": region.contig_edge, **_children(region),
        })
    return {"protoclusters": protos, "candidates": cands, "subregions": subs, "regions": regions}


def _annotations(annotations: dict) -> dict:
    out = {}
    for key, value in sorted(annotations.items()):
        if key == "references":
            if not value:
                continue        # record_to_json always writes a (possibly empty) list: absent == empty
            out[key] = [{k: (_plain([str(loc) for loc in v]) if k == "location" else _plain(v))
                         for k, v in sorted(vars(ref).items())} for ref in value]
        else:
            out[key] = _plain(value)
    return out


def dump(record, strandless_as_forward: bool = False) -> dict:
    forward = strandless_as_forward
    features = [_feature_entry(feature, record, forward) for feature in record.all_features]
    features.sort(key=feature_key)
    return {
        "id": record.id, "name": record.name, "description": record.description, "dbxrefs": list(record.dbxrefs),
        "topology": "circular" if record.is_circular() else "linear", "length": len(record.seq),
        "seq": str(record.seq), "annotations": _annotations(record.annotations),
        "features": features, "areas": _areas(record, forward),
    }


def diff(a, b, limit: int = 20, path: str = "") -> list:
    """ structural differences between two dumps as (path, a, b); features are aligned by feature_key """
    out: list = []
    _diff(a, b, path, out, limit)
    return out


def _short(value):
    text = repr(value)
    return text if len(text) <= 160 else text[:157] + "..."


def _diff(a, b, path, out, limit):
    if len(out) >= limit:
        return
    if path == "features" and isinstance(a, list) and isinstance(b, list):
        ka = {}
        for entry in a:
            ka.setdefault(feature_key(entry), []).append(entry)
        kb = {}
        for entry in b:
            kb.setdefault(feature_key(entry), []).append(entry)
        for key in sorted(set(ka) | set(kb)):
            la, lb = ka.get(key, []), kb.get(key, [])
            if len(la) != len(lb):
                out.append((f"features[{key}]#count", len(la), len(lb)))
                if len(out) >= limit:
                    return
            for ea, eb in zip(la, lb):
                _diff(ea, eb, f"features[{key}]", out, limit)
        return
    if isinstance(a, dict) and isinstance(b, dict):
        for key in sorted(set(a) | set(b)):
            if key not in a or key not in b:
                out.append((f"{path}.{key}" if path else key, _short(a.get(key, "<absent>")),
                            _short(b.get(key, "<absent>"))))
                if len(out) >= limit:
                    return
                continue
            _diff(a[key], b[key], f"{path}.{key}" if path else key, out, limit)
        return
    if isinstance(a, list) and isinstance(b, list):
        if len(a) != len(b):
            out.append((path + "#len", _short(a), _short(b)))
            return
        for i, (x, y) in enumerate(zip(a, b)):
            _diff(x, y, f"{path}[{i}]", out, limit)
        return
    if a != b:
        out.append((path, _short(a), _short(b)))
