"""Reference model for C06: regions as connected components of "areas share a base".

An area is read only through the half-open intervals of its location parts on range(L) (an area crossing the
origin of a ring is the two intervals [x, L) and [0, y)). No antiSMASH algorithm is used: components come from a
union-find over all pairs, the expected region is the union of the bases of its members (members of one component
are linked by shared bases, so the union is one stretch of the line/ring, i.e. the span of the component).
"""
from __future__ import annotations

import itertools
from typing import Optional, Sequence

Intervals = list[tuple[int, int]]


def intervals_of(location) -> Intervals:
    return [(int(p.start), int(p.end)) for p in location.parts]


def normalise(intervals) -> Intervals:
    out: list[list[int]] = []
    for s, e in sorted(i for i in intervals if i[1] > i[0]):
        if out and s <= out[-1][1]:
            out[-1][1] = max(out[-1][1], e)
        else:
            out.append([s, e])
    return [(s, e) for s, e in out]


def share_a_base(a: Intervals, b: Intervals) -> bool:
    return any(s1 < e2 and s2 < e1 for s1, e1 in a for s2, e2 in b)


def size(intervals: Intervals) -> int:
    return sum(e - s for s, e in normalise(intervals))


def wellformed_area(intervals: Intervals, length: int, circular: bool) -> Optional[str]:
    """ None, or the reason the parts are not one stretch of the line / ring """
    for s, e in intervals:
        if not 0 <= s < e <= length:
            return "part-empty-or-outside-record"
    if len(intervals) == 1:
        return None
    if len(intervals) > 2:
        return "more-than-two-parts"
    if not circular:
        return "two-parts-on-a-linear-record"
    (s1, e1), (s2, e2) = intervals
    if e1 != length or s2 != 0:
        return "parts-do-not-meet-at-the-origin"
    if e2 > s1:
        return "parts-overlap"
    return None


def components(areas: Sequence[Intervals]) -> list[list[int]]:
    """ index lists of the connected components of share_a_base, each sorted, ordered by first member """
    parent = list(range(len(areas)))

    def find(x: int) -> int:
        while parent[x] != x:
            parent[x] = parent[parent[x]]
            x = parent[x]
        return x
    for i, j in itertools.combinations(range(len(areas)), 2):
        if share_a_base(areas[i], areas[j]):
            parent[find(i)] = find(j)
    groups: dict[int, list[int]] = {}
    for i in range(len(areas)):
        groups.setdefault(find(i), []).append(i)
    return sorted(groups.values())


def direct_links(areas: Sequence[Intervals], members: Sequence[int]) -> int:
    return sum(1 for i, j in itertools.combinations(members, 2) if share_a_base(areas[i], areas[j]))


def expected_region(areas: Sequence[Intervals], members: Sequence[int]) -> Intervals:
    """ base set of the region for one component (normalised intervals in record coordinates) """
    return normalise(iv for i in members for iv in areas[i])


def order_key(intervals: Intervals, length: int) -> int:
    """ location order: by start coordinate; an area crossing the origin starts before it (x - L < 0) """
    if len(intervals) == 2:
        return intervals[0][0] - length
    return intervals[0][0]


def in_location_order(keys: Sequence[int]) -> Optional[int]:
    """ index of the first element that sorts before its predecessor, or None """
    for i in range(1, len(keys)):
        if keys[i] < keys[i - 1]:
            return i
    return None


def shape_facts(areas: Sequence[Intervals], length: int, circular: bool) -> dict:
    """ structural facts about a set of areas, used for coverage classes and finding classifiers """
    comps = components(areas)
    crossing = [i for i, a in enumerate(areas) if len(a) == 2]
    facts = {
        "n_areas": len(areas), "n_components": len(comps), "circular": circular,
        "any_area_crosses_origin": bool(crossing),
        "largest_component_bases": max((size(expected_region(areas, c)) for c in comps), default=0),
    }
    facts["component_longer_than_half"] = circular and 2 * facts["largest_component_bases"] > length
    facts["component_covers_record"] = facts["largest_component_bases"] == length
    # the sweep's sections: components of the areas that do not contain the origin-crossing component
    wrap_comp = next((c for c in comps if any(i in crossing for i in c)), None)
    facts["sections_meeting_origin_component"] = 0
    facts["stretches_on_pre_origin_side"] = 0
    facts["origin_component_longer_than_half"] = False
    if wrap_comp is not None:
        facts["origin_component_longer_than_half"] = 2 * size(expected_region(areas, wrap_comp)) > length
        # maximal runs of non-crossing members of the wrapping component that are connected without the
        # crossing areas: how many separate stretches hang onto the origin-crossing areas
        rest = [i for i in wrap_comp if i not in crossing]
        sub = components([areas[i] for i in rest])
        facts["sections_meeting_origin_component"] = len(sub)
        # stretches attached to the pre-origin side (they overlap [x, L) of the crossing hull)
        x = min(areas[i][0][0] for i in crossing)
        y = max(areas[i][1][1] for i in crossing)
        pre_side = 0
        for group in sub:
            ivs = [iv for k in group for iv in areas[rest[k]]]
            if share_a_base(ivs, [(x, length)]) and not share_a_base(ivs, [(0, y)]):
                pre_side += 1
        facts["stretches_on_pre_origin_side"] = pre_side
    return facts
