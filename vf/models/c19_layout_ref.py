"""C19 oracle: predicates on the numbers emitted for the region overview.

Nothing here imports antiSMASH. The input is (a) a *frame*: record length, topology and the forward-order
parts of the region's location, (b) *features* described by forward-order spans (extent, optional core)
and an identifying (kind, product) pair, (c) the emitted JSON entries. Every predicate looks at finished
data and answers with a list of (clause, facts).

Coordinates: areas are emitted 0-based half-open (`start`, `end`, `neighbouring_start`,
`neighbouring_end`); genes are emitted 1-based closed (`start` = first base + 1, `end` = last base).

The genome-order map of a frame: a region that spans the origin is drawn from the start of its pre-origin
part to `L + end of its post-origin part`; a position in the post-origin part is shifted by L. In every other
region positions are drawn as they are, and a feature that spans the origin (possible only when the region
is the whole circular record) is drawn as two halves [S, L] and [0, E] that share a group id.
"""
from __future__ import annotations

import collections
import itertools


class Frame:
    """ the announced coordinate range of a region and its genome-order map """

    def __init__(self, length: int, circular: bool, region_parts: list[tuple[int, int]]):
        self.length = length
        self.circular = circular
        self.parts = [tuple(p) for p in region_parts]
        # spans the origin: forward order of parts steps down (two-part [x, L) + [0, y))
        self.crossing = any(self.parts[i + 1][0] < self.parts[i][0] for i in range(len(self.parts) - 1))
        if self.crossing:
            self.lo = self.parts[0][0]
            self.hi = length + self.parts[-1][1]
        else:
            self.lo = min(s for s, _ in self.parts)
            self.hi = max(e for _, e in self.parts)
        self.whole = circular and not self.crossing and self.lo == 0 and self.hi == length

    def facts(self) -> dict:
        return {"circular": self.circular, "region_crosses_origin": self.crossing,
                "region_is_whole_record": self.whole, "L": self.length,
                "region": [list(p) for p in self.parts]}

    def side(self, start: int, end: int) -> str:
        """ where a feature that does not span the origin lies in a region that does """
        pre = self.parts[0]
        post = self.parts[-1]
        in_pre = pre[0] <= start and end <= pre[1]
        in_post = post[0] <= start and end <= post[1]
        if in_pre and not in_post:
            return "pre"
        if in_post and not in_pre:
            return "post"
        if in_pre and in_post:
            return "both"
        return "neither"

    def image(self, start: int, end: int, bridging: bool) -> list[tuple[int, int]] | None:
        """ the drawn piece(s) of the stretch that runs forward from start to end (0-based half-open);
            None when the feature is not inside the region at all (nothing can be expected) """
        if self.crossing:
            if bridging:
                return [(start, end + self.length)]
            side = self.side(start, end)
            if side == "pre":
                return [(start, end)]
            if side == "post":
                return [(start + self.length, end + self.length)]
            return None
        if bridging:
            return [(start, self.length), (0, end)]
        return [(start, end)]


def extent_of(entry: dict) -> tuple[int, int]:
    return (entry.get("neighbouring_start", entry["start"]), entry.get("neighbouring_end", entry["end"]))


def units_of(entries: list[dict]) -> tuple[list[list[dict]], list[tuple[str, dict]]]:
    """ entries linked by a non-zero group id form one drawn unit """
    problems = []
    by_group = collections.OrderedDict()
    units = []
    for entry in entries:
        group = entry.get("group")
        if group:
            by_group.setdefault(group, []).append(entry)
        else:
            units.append([entry])
    for group, members in by_group.items():
        units.append(members)
    return units, problems


def check_areas(frame: Frame, features: list[dict], entries: list[dict]) -> list[tuple[str, dict]]:
    """ features: {"kind", "product", "extent": (S, E), "bridging": bool, "core": (s, e) | None,
                   "core_bridging": bool}
        entries: the JSON of build_area_rows """
    out: list[tuple[str, dict]] = []
    base = frame.facts()

    def bad(clause, **facts):
        out.append((clause, dict(base, **facts)))

    units, _ = units_of(entries)
    # --- identify each unit -------------------------------------------------------------------
    by_id: dict[tuple[str, str], list[list[dict]]] = collections.defaultdict(list)
    for unit in units:
        kinds = {e["kind"] for e in unit}
        names = {e["product"] for e in unit if e.get("product")}
        if len(kinds) != 1 or len(names) != 1:
            bad("area-unit-identifiable", kinds=sorted(kinds), products=sorted(names), entries=unit)
            continue
        by_id[(kinds.pop(), names.pop())].append(unit)
    wanted = {(f["kind"], f["product"]) for f in features}
    for ident, found in by_id.items():
        if ident not in wanted:
            bad("area-drawn-belongs-to-region", area_kind=ident[0], product=ident[1], entries=found[0])
    # --- completeness, extents, cores ----------------------------------------------------------
    # features that cannot be told apart by kind and name (the same stretch found by a rule and handed in from outside
    # under one product name): as many units as features, paired in the order of their extents
    twins: dict = collections.defaultdict(list)
    for feat in features:
        twins[(feat["kind"], feat["product"])].append(feat)
    position_of = {}
    for ident, same in twins.items():
        for k, feat in enumerate(sorted(same, key=lambda f: (list(f["extent"]), list(f["core"]) if f["core"] else []))):
            position_of[id(feat)] = k
    for feat in features:
        ident = (feat["kind"], feat["product"])
        ffacts = {"area_kind": feat["kind"], "product": feat["product"], "feature_extent": list(feat["extent"]),
                  "feature_crosses_origin": feat["bridging"], "feature_core": list(feat["core"]) if feat["core"] else None,
                  "core_crosses_origin": feat.get("core_bridging", False), "origin_class": feat.get("origin_class"),
                  "sideloaded": feat.get("sideloaded", False),
                  "origin_side_test_mismatch": feat.get("side_test_mismatch", False)}
        found = by_id.get(ident, [])
        if len(found) != len(twins[ident]):
            bad("area-drawn-exactly-once", times=len(found), features_of_this_name=len(twins[ident]), **ffacts)
            continue
        unit = sorted(found, key=lambda u: sorted(extent_of(e) for e in u))[position_of[id(feat)]]
        expected = frame.image(feat["extent"][0], feat["extent"][1], feat["bridging"])
        if expected is None:
            # not one stretch of the region: nothing to compare the extent with; the range clause still decides
            out.append(("note:area-not-one-stretch-of-region", {}))
            continue
        got = sorted(extent_of(e) for e in unit)
        if len(unit) > 2 or (len(unit) == 2 and len(expected) != 2):
            bad("two-entries-only-for-a-feature-split-at-the-origin", entries=unit, **ffacts)
            continue
        if got != sorted(expected):
            clause = "extent-is-genome-order-image" if frame.crossing else (
                "halves-cover-the-split-feature" if len(expected) == 2 else "extent-drawn-at-own-coordinates")
            bad(clause, expected=[list(x) for x in sorted(expected)], got=[list(x) for x in got], entries=unit, **ffacts)
        if feat["kind"] == "protocluster":
            for entry in unit:
                ns, ne = extent_of(entry)
                if not ns <= entry["start"] <= entry["end"] <= ne:
                    bad("protocluster-core-inside-own-extent", entry=entry, **ffacts)
            if frame.crossing and feat["core"]:
                want = frame.image(feat["core"][0], feat["core"][1], feat["core_bridging"])
                have = [(e["start"], e["end"]) for e in unit]
                if want is not None and have != want:
                    bad("core-is-genome-order-image", expected=[list(x) for x in want], got=[list(x) for x in have],
                        entries=unit, **ffacts)
    # --- range ------------------------------------------------------------------------------------
    for entry in entries:
        ns, ne = extent_of(entry)
        if not frame.lo <= ns <= ne <= frame.hi:
            bad("area-extent-inside-announced-range", entry=entry, lo=frame.lo, hi=frame.hi, area_kind=entry["kind"])
    # --- rows -------------------------------------------------------------------------------------
    by_height = collections.defaultdict(list)
    for entry in entries:
        by_height[entry["height"]].append(entry)
    for height, members in by_height.items():
        for a, b in itertools.combinations(members, 2):
            (a0, a1), (b0, b1) = extent_of(a), extent_of(b)
            if a0 < b1 and b0 < a1:
                kinds = {a["kind"], b["kind"]}
                bad("same-row-areas-disjoint", a=a, b=b, kinds=sorted(kinds),
                    same_group=bool(a.get("group")) and a.get("group") == b.get("group"))
    return out


def touching_pairs(entries: list[dict]) -> int:
    """ boundary coincidence counter: areas on one row whose extents meet end to start """
    count = 0
    by_height = collections.defaultdict(list)
    for entry in entries:
        by_height[entry["height"]].append(extent_of(entry))
    for members in by_height.values():
        for a, b in itertools.combinations(members, 2):
            if a[1] == b[0] or b[1] == a[0]:
                count += 1
    return count


def check_announced(frame: Frame, js_region: dict) -> list[tuple[str, dict]]:
    """ the range announced by convert_regions: end is exact; start is the first base, 0- or 1-based """
    out = []
    if int(js_region["end"]) != frame.hi or int(js_region["start"]) not in (frame.lo, frame.lo + 1):
        out.append(("announced-range-is-region-range",
                    dict(frame.facts(), announced=[int(js_region["start"]), int(js_region["end"])],
                         expected_lo=frame.lo, expected_hi=frame.hi)))
    return out


def check_orfs(frame: Frame, genes: list[dict], orfs: list[dict]) -> list[tuple[str, dict]]:
    """ genes: {"name", "span": (S, E), "bridging", "strand", "parts": forward-order exons} for the CDS features
        of the region. Clauses starting with "note:" are observations for counters, not deviations. """
    out: list[tuple[str, dict]] = []
    base = frame.facts()

    def bad(clause, **facts):
        out.append((clause, dict(base, **facts)))

    lo1 = frame.lo + 1   # first base of the region, 1-based
    by_name: dict[str, list[dict]] = collections.defaultdict(list)
    for orf in orfs:
        name = orf["locus_tag"]
        if name.endswith("_split") and orf.get("group"):
            name = name[:-len("_split")]
        by_name[name].append(orf)
    known = {g["name"] for g in genes}
    for name, found in by_name.items():
        if name not in known:
            bad("orf-belongs-to-region", orfs=[_slim(o) for o in found])
    for gene in genes:
        sides = set()
        if frame.crossing and not gene["bridging"]:
            sides = {frame.side(s, e) for s, e in gene.get("parts", [gene["span"]])}
        gfacts = {"gene_span": list(gene["span"]), "gene_crosses_origin": gene["bridging"],
                  "gene_strand": gene["strand"], "gene_exons": gene.get("exons", 1),
                  "gene_exons_at_both_ends_of_region": sides == {"pre", "post"}}
        found = by_name.get(gene["name"], [])
        if not found:
            bad("gene-of-region-emitted", **gfacts)
            continue
        for orf in found:
            start, end = int(orf["start"]), int(orf["end"])
            if not lo1 <= start <= end <= frame.hi:
                bad("orf-inside-announced-range", orf=_slim(orf), lo=lo1, hi=frame.hi, **gfacts)
        want = frame.image(gene["span"][0], gene["span"][1], gene["bridging"])
        if want is None:
            # the gene's span is not one stretch of the region (exons at both ends of an almost closed ring):
            # no image to compare with; the range clause above still decides
            out.append(("note:gene-span-not-one-stretch-of-region", {}))
            continue
        want1 = sorted((s + 1, e) for s, e in want)
        got = sorted((int(o["start"]), int(o["end"])) for o in found)
        if len(want1) == 2:
            groups = {o.get("group") for o in found}
            if len(found) != 2 or len(groups) != 1 or not groups.pop():
                bad("split-gene-drawn-as-two-linked-halves", orfs=[_slim(o) for o in found], **gfacts)
            elif got != want1:
                bad("gene-halves-cover-the-split-gene", expected=[list(x) for x in want1], got=[list(x) for x in got], **gfacts)
        elif len(found) != 1:
            bad("unsplit-gene-drawn-once", orfs=[_slim(o) for o in found], **gfacts)
        elif frame.crossing and got != want1:
            bad("gene-is-genome-order-image", expected=[list(x) for x in want1], got=[list(x) for x in got], **gfacts)
    return out


def _slim(orf: dict) -> dict:
    return {k: (int(orf[k]) if k in ("start", "end", "strand") else orf[k])
            for k in ("start", "end", "strand", "locus_tag", "group") if k in orf}
