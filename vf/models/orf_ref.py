"""Reference model for C15: open reading frames of a string, ring bookkeeping, gaps between genes.

Deliberately naive and independent of antismash.common.all_orfs: an ORF is described the way the
property states it (per stop codon: the first start codon after the previous in-frame stop), not by
a scanning state machine. Nothing here imports antiSMASH or Biopython.
"""
from __future__ import annotations

STARTS = frozenset({"ATG", "GTG", "TTG"})
STOPS = frozenset({"TAA", "TAG", "TGA"})

_COMP = {"A": "T", "C": "G", "G": "C", "T": "A", "R": "Y", "Y": "R", "S": "S", "W": "W", "K": "M", "M": "K",
         "B": "V", "V": "B", "D": "H", "H": "D", "N": "N", "X": "X"}
_COMP.update({k.lower(): v.lower() for k, v in list(_COMP.items())})

_BASES = "TCAG"
_AMINOS = "FFLLSSSSYY**CC*WLLLLPPPPHHQQRRRRIIIMTTTTNNKKSSRRVVVVAAAADDEEGGGG"
CODON_TABLE = {a + b + c: _AMINOS[16 * i + 4 * j + k]
               for i, a in enumerate(_BASES) for j, b in enumerate(_BASES) for k, c in enumerate(_BASES)}
_AMBIG = {"A": "A", "C": "C", "G": "G", "T": "T", "R": "AG", "Y": "CT", "S": "CG", "W": "AT", "K": "GT",
          "M": "AC", "B": "CGT", "D": "AGT", "H": "ACT", "V": "ACG", "N": "ACGT", "X": "ACGT"}


def revcomp(seq: str) -> str:
    return "".join(_COMP[c] for c in reversed(seq))


def complement_base(char: str) -> str:
    return _COMP[char]


def orfs_of(seq: str, minimum: int = 0) -> list[tuple[int, int]]:
    """ All ORFs of `seq` read 5'->3' as given: half-open (start, end) pairs, end including the stop.
        For every in-frame stop codon: the codons strictly after the previous in-frame stop (or from
        the frame's first codon); the ORF starts at the first of them that is a start codon. """
    seq = seq.upper()
    found = []
    for frame in range(3):
        codons = [(i, seq[i:i + 3]) for i in range(frame, len(seq) - 2, 3)]
        stop_idx = [k for k, (_, c) in enumerate(codons) if c in STOPS]
        previous = -1
        for k in stop_idx:
            between = codons[previous + 1:k]
            previous = k
            first = next((pos for pos, c in between if c in STARTS), None)
            if first is None:
                continue
            end = codons[k][0] + 3
            if end - first >= minimum:
                found.append((first, end))
    return sorted(found)


def is_orf(nucleotides: str) -> str | None:
    """ None if the string is start codon + codons without stop + stop codon, else the reason """
    seq = nucleotides.upper()
    if len(seq) % 3 or len(seq) < 6:
        return "length-not-codons"
    if seq[:3] not in STARTS:
        return "no-start-codon"
    if seq[-3:] not in STOPS:
        return "no-stop-codon"
    if any(seq[i:i + 3] in STOPS for i in range(0, len(seq) - 3, 3)):
        return "internal-stop"
    return None


def translate(nucleotides: str) -> str:
    """ standard/bacterial code; ambiguous codons give the amino acid when every reading agrees,
        otherwise X; stops are not expected inside (rendered X like antiSMASH does for '*') """
    seq = nucleotides.upper()
    out = []
    for i in range(0, len(seq) - 2, 3):
        codon = seq[i:i + 3]
        amino = CODON_TABLE.get(codon)
        if amino is None:
            options = {CODON_TABLE[a + b + c] for a in _AMBIG.get(codon[0], "ACGT")
                       for b in _AMBIG.get(codon[1], "ACGT") for c in _AMBIG.get(codon[2], "ACGT")}
            amino = options.pop() if len(options) == 1 else "X"
        out.append("X" if amino == "*" else amino)
    return "".join(out)


def translate_until_stop(nucleotides: str) -> str:
    """ like translate(), but ends before the first codon every reading of which is a stop """
    seq = nucleotides.upper()
    out = []
    for i in range(0, len(seq) - 2, 3):
        codon = seq[i:i + 3]
        options = {CODON_TABLE[a + b + c] for a in _AMBIG.get(codon[0], "ACGT")
                   for b in _AMBIG.get(codon[1], "ACGT") for c in _AMBIG.get(codon[2], "ACGT")}
        if options == {"*"}:
            break
        out.append(options.pop() if len(options) == 1 else "X")
    return "".join(out)


# ---------------------------------------------------------------------------
# windows on a record
# ---------------------------------------------------------------------------

def window_positions(offset: int, wlen: int, length: int | None) -> list[int]:
    """ record coordinate of every base of the window, in forward order """
    if length is None:
        return [offset + i for i in range(wlen)]
    return [(offset + i) % length for i in range(wlen)]


def read_positions(parts: list[tuple[int, int]], strand: int) -> list[int]:
    """ record coordinates in the order a location with these parts (in the given order) is read """
    out: list[int] = []
    for start, end in parts:
        run = list(range(start, end))
        if strand == -1:
            run.reverse()
        out.extend(run)
    return out


def read_sequence(record_seq: str, parts: list[tuple[int, int]], strand: int) -> str:
    """ own extraction: concatenation of the parts in their order, each read on the strand """
    chars = [record_seq[p] for p in read_positions(parts, strand)]
    if strand == -1:
        chars = [_COMP[c] for c in chars]
    return "".join(chars)


# ---------------------------------------------------------------------------
# gaps between genes on a line segment [lo, hi)
# ---------------------------------------------------------------------------

def gaps_between(lo: int, hi: int, spans: list[tuple[int, int]], allowance: int, minimum: int = 0) -> list[tuple[int, int]]:
    """ the stretches of [lo, hi) between consecutive genes, each widened by the allowed overlap
        into its two flanking genes. `spans` are gene extents (start, end) on the same line. A gene
        lying wholly inside the extent of earlier genes opens no gap. """
    gaps = []
    reach = None  # furthest gene end met so far
    for start, end in sorted(spans):
        left = lo if reach is None else max(lo, reach - allowance)
        right = min(hi, start + allowance)
        if (reach is None or start + allowance > reach - allowance) and right > left:
            gaps.append((left, right))
        reach = end if reach is None else max(reach, end)
    left = lo if reach is None else max(lo, reach - allowance)
    if left < hi:
        gaps.append((left, hi))
    return [(s, e) for s, e in gaps if e - s >= minimum]
