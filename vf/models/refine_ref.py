"""Clause checkers for C13 (HMM hit refinement) on a plain interval model.

Nothing here imports antiSMASH. A hit is a tuple; every function takes the *input multiset* and
the *observed output* of one real call and returns a list of (clause, facts) deviations. The
checkers are constraints on (input, output) pairs - there is no second greedy pass whose result
is compared, so a defect shared with the code under test is limited to misreading the documentation:

  refinement (refine_hmmscan_results, per gene)
    sorted-by-start             output starts are non-decreasing
    output-overlap-within-margin no two output hits share more than 0.2*max(model lengths) positions
    output-is-input-or-merge    each output is an input hit or spans >= 2 same-profile input fragments
                                exactly (first start .. last end), carries their best score / e-value
                                and is shorter than 1.5 x model length
    drop-justified              an input hit not represented in the output has (a) a better-ranked kept
                                hit in conflict with it (or with a permissible merge of same-profile
                                fragments it belongs to), or (b) is an incomplete fragment
                                (<= 0.5 model) with an output at least as complete, or (c) is below the
                                documented fallback size (<= 1/3 model; counted as unspecified)
  hmmer.remove_overlapping      sorted, subset, pairwise overlap <= limit, drops justified by a better
                                ranked kept hit (documented ranking key)
  filter_results / filter_result_multiple / filter_nonterminal_docking_domains: see functions.
"""
from __future__ import annotations

from collections import namedtuple

Hit = namedtuple("Hit", "p s e sc ev")        # profile, start, end (exclusive), bitscore, evalue

THRESHOLD = 0.5      # documented: fragments covering <= half the model are incomplete
FALLBACK = 1. / 3.   # documented fallback size
MERGE_SPAN = 1.5     # documented: merge only if the span stays below 1.5 x model length
MARGIN = 0.20        # documented: overlaps of 20% (of the longer model) or less are no overlaps


def shared(a, b) -> int:
    """ number of positions two hits share (<= 0: none) """
    return min(a.e, b.e) - max(a.s, b.s)


def margin(a, b, lengths) -> float:
    return MARGIN * max(lengths[a.p], lengths[b.p])


def contains(a, b) -> bool:
    return a.s <= b.s and b.e <= a.e


def conflict(a, b, lengths) -> bool:
    """ share more than the margin, or one lies inside the other (then 100% of the inner is shared) """
    sh = shared(a, b)
    if sh <= 0:
        return False
    return sh > margin(a, b, lengths) or contains(a, b) or contains(b, a)


def better(k, h) -> bool:
    """ k is ranked at least as well as h: higher score; equal scores favour the earlier start
        (equal score and equal start: either may win) """
    return k.sc > h.sc or (k.sc == h.sc and k.s <= h.s)


def proportion(h, lengths) -> float:
    return (h.e - h.s) / lengths[h.p]


# --------------------------------------------------------------------------------------------
# refinement
# --------------------------------------------------------------------------------------------

def explain_output(o, hits, lengths):
    """ -> (kind, detail): kind in input / merge / <failure shape> """
    if o in hits:
        return "input", None
    same = [h for h in hits if h.p == o.p]
    if not same:
        return "foreign-profile", None
    inside = [h for h in same if o.s <= h.s and h.e <= o.e and h.sc <= o.sc and h.ev >= o.ev]
    spans = (any(h.s == o.s for h in inside) and any(h.e == o.e for h in inside))
    best = (any(h.sc == o.sc for h in inside) and any(h.ev == o.ev for h in inside))
    # the 1.5 x model rule limits how far a merge may *extend*; a fragment that already covers the
    # whole output (the others lie inside it) is not extended by absorbing them
    short = (o.e - o.s) < MERGE_SPAN * lengths[o.p] or any(h.s == o.s and h.e == o.e for h in inside)
    if spans and best and short and len(inside) >= 2:
        return "merge", inside
    # failure shapes
    has_start = any(h.s == o.s for h in same)
    has_end = any(h.e == o.e for h in same)
    sticks_out = [h for h in same if o.s <= h.s < o.e < h.e]
    if has_start and has_end and sticks_out and any(h.sc == o.sc for h in same):
        return "shrunk-merge", sticks_out
    if has_start and has_end and not short:
        return "span-too-long", None
    if has_start and has_end and not best:
        return "score-not-best-of-fragments", None
    return "other", None


def _merge_units(h, hits, lengths):
    """ every (start, end, score) a permissible merge of same-profile fragments containing h can have:
        start hit a, end hit b with a.s <= h.s, b.e >= h.e, span < 1.5 x model.
        The score is that of {a, h, b} (the smallest the merge can carry: hardest to justify a drop by
        incompleteness, easiest by competition - both readings are allowed to the code). """
    same = [x for x in hits if x.p == h.p]
    limit = MERGE_SPAN * lengths[h.p]
    units = []
    for a in same:
        if a.s > h.s:
            continue
        for b in same:
            if b.e < h.e or b.e - a.s >= limit:
                continue
            if a == h and b == h:
                continue
            units.append(Hit(h.p, a.s, b.e, max(a.sc, b.sc, h.sc), min(a.ev, b.ev, h.ev)))
    # a fragment that contains h absorbs it without being extended, however long it is
    for a in same:
        if a != h and contains(a, h):
            units.append(Hit(h.p, a.s, a.e, max(a.sc, h.sc), min(a.ev, h.ev)))
    return units


def all_units(hits, lengths):
    """ every permissible merge of same-profile fragments: hull [a.s, b.e) shorter than 1.5 x model,
        carrying the best score / e-value of the fragments inside the hull """
    units = []
    for a in hits:
        limit = MERGE_SPAN * lengths[a.p]
        for b in hits:
            if b.p != a.p or b.e <= a.s or b.e - a.s >= limit or a.s > b.s:
                continue
            members = [m for m in hits if m.p == a.p and a.s <= m.s and m.e <= b.e]
            if len(members) < 2:
                continue
            units.append(Hit(a.p, a.s, b.e, max(m.sc for m in members), min(m.ev for m in members)))
        nested = [m for m in hits if m.p == a.p and contains(a, m)]
        if len(nested) >= 2:
            units.append(Hit(a.p, a.s, a.e, max(m.sc for m in nested), min(m.ev for m in nested)))
    return units


def shrunk_units(hits):
    """ what HMMResult.merge makes of a same-profile pair whose later fragment ends inside the earlier one
        (known finding 'merge shrinks'): [a.s, b.e) with b.e < a.e. Not a permissible merge; used only to
        describe the structure of a violating case. """
    units = []
    for a in hits:
        for b in hits:
            if a == b or a.p != b.p or not (a.s <= b.s < a.e and a.s < b.e < a.e):
                continue
            inside = [m.sc for m in hits if m.p == a.p and a.s <= m.s < b.e]
            for score in {max(a.sc, b.sc), max(inside)}:
                units.append(Hit(a.p, a.s, b.e, score, min(a.ev, b.ev)))
    return units


def represented(h, out) -> bool:
    if h in out:
        return True
    return any(o.p == h.p and contains(o, h) and o.sc >= h.sc and o.ev <= h.ev for o in out)


def check_refined(hits, out, lengths, neighbour_mode, count=None):
    """ hits: set of Hit (one gene), out: list of Hit as returned. -> [(clause, facts)] """
    devs = []
    hits = set(hits)
    base = {"fn": "refine", "mode": "neighbour" if neighbour_mode else "normal", "n": len(hits)}

    def bump(name):
        if count is not None:
            count(name)

    # sorted
    if any(out[i].s > out[i + 1].s for i in range(len(out) - 1)):
        devs.append(("sorted-by-start", dict(base, starts=[o.s for o in out])))
    if len(set(out)) != len(out):
        devs.append(("output-no-duplicates", dict(base)))

    # provenance
    kinds = {}
    for o in out:
        kind, detail = explain_output(o, hits, lengths)
        kinds[o] = kind
        bump("out:" + kind if kind in ("input", "merge") else "out:unexplained")
        if kind not in ("input", "merge"):
            devs.append(("output-is-input-or-merge", dict(
                base, shape=kind, output=list(o),
                same_profile_fragments=sorted([h.s, h.e, h.sc] for h in hits if h.p == o.p))))

    # pairwise overlap
    for i in range(len(out)):
        for j in range(i + 1, len(out)):
            a, b = out[i], out[j]
            sh = shared(a, b)
            if sh <= 0:
                continue
            m = margin(a, b, lengths)
            if sh == m:
                bump("boundary:output-overlap==margin")
            if sh > m:
                lo, hi = min(a.s, b.s), max(a.s, b.s)
                longest = max(lengths[a.p], lengths[b.p])
                between = [h for h in hits if lo <= h.s <= hi and h not in out]
                devs.append(("output-overlap-within-margin", dict(
                    base, pair=[list(a), list(b)], shared=sh, margin=m, adjacent=(j == i + 1),
                    intermediate_absent=bool(between),
                    intermediate_longer_model_absent=any(lengths[h.p] > longest for h in between),
                    pair_kinds=[kinds[a], kinds[b]])))

    # drops
    complete_out = max((proportion(o, lengths) for o in out), default=None)
    for h in sorted(hits):
        if represented(h, out):
            continue
        bump("drop:evaluated")
        reason = _drop_reason(h, hits, out, lengths, neighbour_mode, complete_out)
        if reason:
            bump("drop:" + reason)
            continue
        same = [x for x in hits if x.p == h.p and x != h]
        limit = MERGE_SPAN * lengths[h.p]
        better_conflicting = [x for x in hits if x != h and better(x, h) and conflict(x, h, lengths)]
        absent_rival = _lost_to_absent_rival(h, hits, out, lengths, neighbour_mode)
        devs.append(("drop-justified", dict(
            base, dropped=list(h), output=[list(o) for o in out],
            complete=proportion(h, lengths) > THRESHOLD,
            # structural facts used by the known-finding classifiers
            lost_to_absent_rival=absent_rival,
            lost_to_shrunk_merge=(not neighbour_mode) and any(
                x.p != me.p and better(x, me) and conflict(x, me, lengths)
                for me in [h] + _merge_units(h, hits, lengths) for x in shrunk_units(hits)),
            tail_cut_by_same_profile_fragment=any(h.s <= x.s < h.e and x.e < h.e for x in same),
            better_conflicting_input=bool(better_conflicting),
            same_profile_restart=any(a.s <= h.s and g.s >= h.s and g != h and g.e - a.s >= limit
                                     for a in same + [h] for g in same),
            sticks_out_of_shrunk_merge=any(o.p == h.p and kinds[o] == "shrunk-merge" and o.s <= h.s < o.e < h.e
                                           for o in out),
            nested_same_profile_fragment=any((contains(h, x) or contains(x, h)) for x in same),
            same_profile_fragments=len(same))))
    return devs


def _lost_to_absent_rival(h, hits, out, lengths, neighbour_mode) -> bool:
    """ structural fact: h (or, where merging precedes the competition, a permissible merge containing h)
        is in conflict with a better-ranked hit / merge that is itself not represented in the output """
    if neighbour_mode:
        return any(x != h and better(x, h) and conflict(x, h, lengths) and not represented(x, out) for x in hits)
    rivals = list(hits) + all_units(hits, lengths)
    selves = [h] + _merge_units(h, hits, lengths)

    def absent(x, me):
        # not in the output, nor standing in it as part of a same-profile hit that competes with the candidate
        # (a short fragment nested in a kept hit of its profile that is too long to merge with it competes on
        # its own and is removed as incomplete afterwards: the kept hit is no rival of the candidate)
        return not any((o == x or (o.p == x.p and contains(o, x) and o.sc >= x.sc and o.ev <= x.ev))
                       and conflict(o, me, lengths) for o in out)

    # same-profile rivals compete too (fragments too far apart to merge stay separate hits), but a merge that
    # contains the candidate is the candidate itself, not a rival
    return any((x.p != me.p or not contains(x, me)) and x != me and better(x, me) and conflict(x, me, lengths)
               and absent(x, me)
               for me in selves for x in rivals)


def _drop_reason(h, hits, out, lengths, neighbour_mode, complete_out):
    # (a) a better-ranked kept hit in conflict with h itself
    for k in out:
        if k != h and better(k, h) and conflict(k, h, lengths):
            return "better-kept-conflict"
    # (a2) ... or represented inside an output merge (in neighbour mode the competition precedes the merge)
    for x in hits:
        if x != h and x not in out and better(x, h) and conflict(x, h, lengths) and represented(x, out):
            return "better-kept-conflict-constituent"
    units = _merge_units(h, hits, lengths)
    # (a') h competed as part of a merge of same-profile fragments (merge precedes competition
    #      in normal mode only)
    if not neighbour_mode:
        for unit in units:
            for k in out:
                if k.p == unit.p and contains(unit, k) and unit.e - unit.s < MERGE_SPAN * lengths[unit.p]:
                    # a fragment of the merge itself is no rival of the merge (within the span that is merged, every
                    # fragment of the profile inside the hull belongs to it; a longer hit that merely contains
                    # other hits of its profile does compete with those too far from its start to be merged)
                    continue
                if better(k, unit) and conflict(k, unit, lengths):
                    return "better-kept-conflict-with-merged-unit"
    # (b) incomplete fragment with a more complete alternative
    for unit in [h] + units:
        prop = proportion(unit, lengths)
        if prop > THRESHOLD:
            continue
        if complete_out is not None and complete_out >= prop:
            return "incomplete-with-alternative"
    # (c) documented: fragments at most a third of the model are dropped even without alternative
    #     (a 'regulator' profile is documented to be kept then - one of them)
    if proportion(h, lengths) <= FALLBACK and ("regulator" not in h.p or any("regulator" in o.p for o in out)):
        return "unspecified-below-fallback"
    return None


# --------------------------------------------------------------------------------------------
# hmmer.remove_overlapping
# --------------------------------------------------------------------------------------------

HHit = namedtuple("HHit", "ident s e sc")


def hmmer_rank(h, cutoffs):
    """ documented: normalised score, longest, earliest start, identifier (ascending = better) """
    return (cutoffs[h.ident] / h.sc, 1 / (h.e - h.s), h.s, h.ident)


def hmmer_conflict(a, b, limit) -> bool:
    sh = shared(a, b)
    if sh <= 0:
        return False
    return sh >= limit or contains(a, b) or contains(b, a)


def check_hmmer(hits, out, cutoffs, limit, count=None):
    devs = []
    base = {"fn": "hmmer.remove_overlapping", "n": len(hits), "limit": limit}
    if any(out[i].s > out[i + 1].s for i in range(len(out) - 1)):
        devs.append(("sorted-by-start", dict(base, starts=[o.s for o in out])))
    pool = set(hits)
    if any(o not in pool for o in out):
        devs.append(("output-is-input", dict(base, foreign=[list(o) for o in out if o not in pool])))
    excess = {o: out.count(o) - list(hits).count(o) for o in set(out) if o in pool and out.count(o) > list(hits).count(o)}
    if excess:
        first = min(h.s for h in pool)
        devs.append(("output-is-sub-multiset-of-input", dict(
            base, excess=[[list(o), n] for o, n in sorted(excess.items())],
            only_earliest_hit_shorter_than_limit=all(o.s == first and o.e - o.s < limit and n == 1
                                                     for o, n in excess.items()))))
    out = sorted(set(out), key=out.index)      # judge the remaining clauses on the distinct hits
    for i in range(len(out)):
        for j in range(i + 1, len(out)):
            sh = shared(out[i], out[j])
            if sh == limit and count is not None:
                count("boundary:hmmer-overlap==limit")
            if sh > limit:
                devs.append(("output-overlap-within-limit", dict(base, pair=[list(out[i]), list(out[j])], shared=sh,
                                                                  adjacent=(j == i + 1))))
    kept = set(out)
    for h in sorted(pool):
        if h in kept:
            continue
        if count is not None:
            count("drop:evaluated")
        rank = hmmer_rank(h, cutoffs)
        if not any(hmmer_rank(k, cutoffs) < rank and hmmer_conflict(k, h, limit) for k in out):
            devs.append(("drop-justified", dict(
                base, dropped=list(h), output=[list(o) for o in out],
                better_conflicting_input=any(hmmer_rank(x, cutoffs) < rank and hmmer_conflict(x, h, limit)
                                             for x in pool if x != h))))
    return devs


# --------------------------------------------------------------------------------------------
# per-gene competition: filter_results / filter_result_multiple
# --------------------------------------------------------------------------------------------

PHit = namedtuple("PHit", "profile s e sc")    # profile hit on one gene (hit_start/hit_end on the gene)

COMPETE_OVERLAP = 20   # cluster_prediction.filter_results: overlaps of more than 20 compete


def components(hits, min_overlap=COMPETE_OVERLAP):
    """ connected components of 'shares more than min_overlap positions' """
    hits = list(hits)
    parent = list(range(len(hits)))

    def find(i):
        while parent[i] != i:
            parent[i] = parent[parent[i]]
            i = parent[i]
        return i
    for i in range(len(hits)):
        for j in range(i + 1, len(hits)):
            if shared(hits[i], hits[j]) > min_overlap:
                parent[find(i)] = find(j)
    groups = {}
    for i, h in enumerate(hits):
        groups.setdefault(find(i), []).append(h)
    return list(groups.values())


def check_filter_results(by_cds_in, by_cds_out, results_in, results_out, groups, count=None):
    """ *_in / *_out: {cds: [PHit]} and [(cds, PHit)] before and after the call """
    devs = []
    base = {"fn": "filter_results"}
    if sorted(by_cds_out) != sorted(by_cds_in):
        devs.append(("competition-keeps-genes", dict(base, before=sorted(by_cds_in), after=sorted(by_cds_out))))
    flat_out = sorted((cds, h) for cds, hs in by_cds_out.items() for h in hs)
    if sorted(results_out) != flat_out:
        devs.append(("competition-lists-consistent", dict(base)))
    # order preserved
    it = iter(results_in)
    if not all(any(x == y for y in it) for x in results_out):
        devs.append(("competition-order-preserved", dict(base, which="results")))
    for cds, before in by_cds_in.items():
        after = by_cds_out.get(cds, [])
        it = iter(before)
        if not all(any(x == y for y in it) for x in after):
            devs.append(("competition-order-preserved", dict(base, which="by_cds")))
        profiles = {h.profile for h in before}
        competing = any(len(profiles & set(g)) >= 2 for g in groups)
        facts = dict(base, cds_hits=[list(h) for h in before], survivors=[list(h) for h in after],
                     competing=competing)
        if not competing:
            if count is not None:
                count("filter_results:gene-without-competition")
            if sorted(after) != sorted(before):
                devs.append(("competition-only-between-equivalent-profiles", facts))
            continue
        if count is not None:
            count("filter_results:gene-with-competition")
        for comp in components(before):
            top = max(h.sc for h in comp)
            best = [h for h in comp if h.sc == top]
            if len(comp) > 1 and count is not None:
                count("filter_results:overlap-group")
            if not any(h in after for h in best):
                devs.append(("group-best-survives", dict(
                    facts, group=[list(h) for h in comp], tie_for_best=len(best) > 1,
                    chain_group_of_4=len(comp) >= 4 and any(shared(a, b) <= COMPETE_OVERLAP
                                                            for a in comp for b in comp if a != b))))
        for i in range(len(after)):
            for j in range(i + 1, len(after)):
                if shared(after[i], after[j]) > COMPETE_OVERLAP:
                    devs.append(("survivors-do-not-overlap", dict(facts, pair=[list(after[i]), list(after[j])])))
        for h in before:
            if h in after:
                continue
            # the property demands survival of the best of each overlap group, it does not protect the others
            rivals = [x for x in before if x != h and shared(x, h) > COMPETE_OVERLAP]
            if not rivals:
                devs.append(("unchallenged-hit-survives", dict(facts, hit=list(h))))
            elif count is not None:
                if not any(x.sc >= h.sc for x in rivals):
                    count("unspecified:dropped-though-better-than-every-hit-it-overlaps")
                elif not any(x in after for x in rivals if x.sc >= h.sc):
                    count("unspecified:dropped-by-rival-that-was-dropped")
    return devs


def check_filter_multiple(by_cds_in, by_cds_out, results_out, count=None):
    devs = []
    base = {"fn": "filter_result_multiple"}
    if sorted(by_cds_out) != sorted(by_cds_in):
        devs.append(("competition-keeps-genes", dict(base, before=sorted(by_cds_in), after=sorted(by_cds_out))))
    flat_out = sorted((cds, h) for cds, hs in by_cds_out.items() for h in hs)
    if sorted(results_out) != flat_out:
        devs.append(("competition-lists-consistent", dict(base)))
    if any(results_out[i][1].s > results_out[i + 1][1].s for i in range(len(results_out) - 1)):
        devs.append(("sorted-by-start", dict(base)))
    for cds, before in by_cds_in.items():
        after = by_cds_out.get(cds, [])
        facts = dict(base, cds_hits=[list(h) for h in before], survivors=[list(h) for h in after])
        it = iter(before)
        if not all(any(x == y for y in it) for x in after):
            devs.append(("competition-order-preserved", dict(facts, which="by_cds")))
        for profile in sorted({h.profile for h in before}):
            mine = [h for h in before if h.profile == profile]
            top = max(h.sc for h in mine)
            kept = [h for h in after if h.profile == profile]
            if count is not None:
                count("filter_multiple:profile" + ("-with-copies" if len(mine) > 1 else "-single"))
            if len(kept) != 1 or kept[0].sc != top or kept[0] not in mine:
                devs.append(("profile-best-survives", dict(facts, profile=profile, kept=[list(h) for h in kept],
                                                           tie_for_best=sum(1 for h in mine if h.sc == top) > 1)))
        if any(h not in before for h in after):
            devs.append(("output-is-input", facts))
    return devs


# --------------------------------------------------------------------------------------------
# filter_nonterminal_docking_domains
# --------------------------------------------------------------------------------------------

DOCKING = {"NRPS-COM_Nterm", "NRPS-COM_Cterm", "PKS_Docking_Cterm", "PKS_Docking_Nterm"}
TERMINAL = 50


def expected_docking(domains, protein_length):
    """ documented: docking predictions not overlapping the first or last 50 residues are removed """
    keep = []
    for h in domains:
        if h.p in DOCKING and not (h.s < TERMINAL or protein_length - h.e < TERMINAL):
            continue
        keep.append(h)
    return keep
