"""Set-of-bases model of locations on a line or a ring, by interval arithmetic.

A location is read only through `.parts`, `.start`/`.end` of parts and `.strand`; no antiSMASH
algorithm is used. "Parts" are half-open integer intervals [s, e).
"""
from __future__ import annotations

from typing import Iterable, Optional


def parts_of(loc) -> list[tuple[int, int]]:
    return [(int(p.start), int(p.end)) for p in loc.parts]


def forward_parts(loc) -> list[tuple[int, int]]:
    """ parts in the order met when travelling along increasing coordinates (biological order on +) """
    parts = parts_of(loc)
    if loc.strand == -1:
        parts.reverse()
    return parts


def bases(loc) -> set[int]:
    out: set[int] = set()
    for s, e in parts_of(loc):
        out.update(range(s, e))
    return out


def total_len(intervals: Iterable[tuple[int, int]]) -> int:
    return sum(e - s for s, e in normalise(intervals))


def normalise(intervals: Iterable[tuple[int, int]]) -> list[tuple[int, int]]:
    """ union of intervals as a sorted list of disjoint, non-adjacent intervals """
    out: list[list[int]] = []
    for s, e in sorted(i for i in intervals if i[1] > i[0]):
        if out and s <= out[-1][1]:
            out[-1][1] = max(out[-1][1], e)
        else:
            out.append([s, e])
    return [(s, e) for s, e in out]


def intervals_intersect(a: Iterable[tuple[int, int]], b: Iterable[tuple[int, int]]) -> bool:
    b = list(b)
    return any(s1 < e2 and s2 < e1 for s1, e1 in a for s2, e2 in b)


def overlap(a, b) -> bool:
    return intervals_intersect(parts_of(a), parts_of(b))


def contains(outer, inner) -> bool:
    """ each part of inner inside one part of outer """
    outs = parts_of(outer)
    return all(any(os <= s and e <= oe for os, oe in outs) for s, e in parts_of(inner))


def covers(outer_intervals, inner_intervals) -> bool:
    """ set inclusion of base sets given as interval lists """
    outs = normalise(outer_intervals)
    return all(any(os <= s and e <= oe for os, oe in outs) for s, e in normalise(inner_intervals))


def is_bridging(loc) -> bool:
    """ model: travelling along the forward order of parts, the start coordinate goes down once """
    fwd = forward_parts(loc)
    return any(fwd[i + 1][0] < fwd[i][0] for i in range(len(fwd) - 1))


def span(loc, length: Optional[int]) -> list[tuple[int, int]]:
    """ the contiguous stretch a location occupies including introns: one interval, or two
        ([x, L) and [0, y)) when the location bridges the origin """
    fwd = forward_parts(loc)
    if not is_bridging(loc):
        return [(min(s for s, _ in fwd), max(e for _, e in fwd))]
    assert length is not None
    idx = next(i for i in range(len(fwd) - 1) if fwd[i + 1][0] < fwd[i][0])
    upper = fwd[:idx + 1]
    lower = fwd[idx + 1:]
    return [(min(s for s, _ in upper), length), (0, max(e for _, e in lower))]


def line_gap_intervals(a: list[tuple[int, int]], b: list[tuple[int, int]]) -> int:
    if intervals_intersect(a, b):
        return 0
    best = None
    for s1, e1 in a:
        for s2, e2 in b:
            gap = s2 - e1 if e1 <= s2 else s1 - e2
            if best is None or gap < best:
                best = gap
    return best


def ring_gap_intervals(a: list[tuple[int, int]], b: list[tuple[int, int]], length: int) -> int:
    if intervals_intersect(a, b):
        return 0
    best = None
    for s1, e1 in a:
        for s2, e2 in b:
            if e1 <= s2:
                gap = min(s2 - e1, s1 + length - e2)
            else:
                gap = min(s1 - e2, s2 + length - e1)
            if best is None or gap < best:
                best = gap
    return best


def distance(a, b, length: Optional[int] = None) -> int:
    """ bases strictly between the two base sets, the shorter way round if length is given """
    if length is None:
        return line_gap_intervals(parts_of(a), parts_of(b))
    return ring_gap_intervals(parts_of(a), parts_of(b), length)


def span_distance(a, b, length: Optional[int] = None) -> int:
    """ distance between the spans (introns filled in) """
    if length is None:
        return line_gap_intervals(span(a, None), span(b, None))
    return ring_gap_intervals(span(a, length), span(b, length), length)


def shortest_cover(intervals: Iterable[tuple[int, int]], length: int) -> tuple[int, int]:
    """ shortest arc of the ring covering all intervals: (start, arc_length); the complement of
        the largest gap between occupied stretches. arc_length == length means the full ring.
        Ties on the largest gap are resolved towards the lowest start (callers that need
        uniqueness must test `cover_is_unique`). """
    norm = normalise(intervals)
    if not norm:
        raise ValueError("nothing to cover")
    if norm[0][0] == 0 and norm[-1][1] == length and len(norm) > 1:
        # joined across the origin
        first = norm.pop(0)
        last = norm.pop()
        norm.append((last[0], length + first[1]))
    elif norm == [(0, length)]:
        return (0, length)
    best_gap = -1
    best_start = 0
    count = len(norm)
    for i in range(count):
        cur = norm[i]
        nxt = norm[(i + 1) % count]
        gap = (nxt[0] - cur[1]) % length if count > 1 else length - (cur[1] - cur[0])
        if gap > best_gap:
            best_gap = gap
            best_start = nxt[0] % length
    return (best_start, length - best_gap)


def cover_candidates(intervals: Iterable[tuple[int, int]], length: int) -> list[tuple[int, int]]:
    """ all minimal covering arcs (several when the largest gap is tied) """
    norm = normalise(intervals)
    if norm[0][0] == 0 and norm[-1][1] == length and len(norm) > 1:
        first = norm.pop(0)
        last = norm.pop()
        norm.append((last[0], length + first[1]))
    elif norm == [(0, length)]:
        return [(0, length)]
    count = len(norm)
    gaps = []
    for i in range(count):
        cur = norm[i]
        nxt = norm[(i + 1) % count]
        gap = (nxt[0] - cur[1]) % length if count > 1 else length - (cur[1] - cur[0])
        gaps.append((gap, nxt[0] % length))
    best = max(g for g, _ in gaps)
    return [(start, length - gap) for gap, start in gaps if gap == best]


def arc_to_intervals(start: int, arc_len: int, length: int) -> list[tuple[int, int]]:
    if arc_len >= length:
        return [(0, length)]
    end = start + arc_len
    if end <= length:
        return [(start, end)]
    return [(start, length), (0, end - length)]


def rotate_intervals(intervals: Iterable[tuple[int, int]], offset: int, length: int) -> list[tuple[int, int]]:
    """ the same bases shifted by offset modulo length """
    out = []
    for s, e in intervals:
        n = e - s
        if n >= length:
            return [(0, length)]
        s2 = (s + offset) % length
        out.extend(arc_to_intervals(s2, n, length))
    return normalise(out)


def extend_intervals(first: tuple[int, int], last: tuple[int, int], dist: int, length: int,
                     circular: bool) -> list[tuple[int, int]]:
    """ bases added by extending before `first` and after `last` by dist """
    added = []
    if not circular:
        added.append((max(0, first[0] - dist), first[0]))
        added.append((last[1], min(length, last[1] + dist)))
        return normalise(added)
    dist = min(dist, length)
    added.extend(arc_to_intervals((first[0] - dist) % length, dist, length))
    added.extend(arc_to_intervals(last[1] % length, dist, length))
    return normalise(added)


def wellformed(loc, length: Optional[int], span_like: bool = False) -> Optional[str]:
    """ None if well-formed, else the name of the broken clause """
    parts = parts_of(loc)
    for s, e in parts:
        if not s < e:
            return "empty-part"
        if s < 0 or (length is not None and e > length):
            return "part-outside-record"
    if total_len(parts) != sum(e - s for s, e in parts):
        return "parts-overlap"
    if span_like:
        if len(parts) > 2:
            return "more-than-two-parts"
        if len(parts) == 2:
            if parts[1][0] != 0:
                return "second-part-not-at-origin"
            if length is not None and parts[0][1] != length:
                return "first-part-not-to-end"
    return None
