"""C14 oracle: the documented NRPS/PKS module layout as direct predicates over a component list.

A component is a pair (label, subtype): the profile name of the domain and the name of its single
nested subtype hit (None when there is none or the nesting is ambiguous). Nothing here imports
antiSMASH and nothing here is incremental: every predicate looks at a *finished* list of components
(or at a list plus the labels that follow it in the gene) and answers yes/no. The role tables are a
pinned copy of the documented classification (module docstring and tables of
antismash/detection/nrps_pks_domains/module_identification.py) so that the oracle does not inherit an
edit of the tables under test.

Documented layout (module docstring):
    [starter] loader [modification, ...] carrier_protein [finalisation]
    trans-AT: starter(Trans-AT-KS) [modification, ...] carrier_protein [modification(KR)] [finalisation]
Documented exception (DOUBLE_TRANSPORTER_CASES): a further carrier protein directly followed by
    LPG_synthase_C, Beta_elim_lyase stays in the module together with those two domains.
"""
from __future__ import annotations

ADENYLATIONS = frozenset({"AMP-binding", "A-OX"})
ACYLTRANSFERASES = frozenset({"PKS_AT"})
CONDENSATIONS = frozenset({"Cglyc", "Condensation_DCL", "Condensation_LCL", "Condensation_sid",
                           "Condensation_Starter", "Condensation_Dual", "Heterocyclization"})
ENDS = frozenset({"Abhydrolase_1", "cAT", "Epimerization", "Thioesterase", "TD"})
KETOSYNTHASES = frozenset({"PKS_KS"})
MODIFIERS = frozenset({"PKS_DH", "PKS_DH2", "PKS_DHt", "PKS_KR", "PKS_ER", "cMT", "nMT", "oMT",
                       "Beta_elim_lyase", "LPG_synthase_C", "TauD"})
CARRIERS = frozenset({"ACP", "ACP_beta", "PCP", "PKS_PP", "PP-binding"})
ALTERNATE_STARTERS = frozenset({"CAL_domain", "SAT"})
IGNORED = frozenset({"NRPS-COM_Cterm", "NRPS-COM_Nterm", "PKS_Docking_Cterm", "PKS_Docking_Nterm"})
SPECIAL = frozenset({"Trans-AT_docking", "TIGR01720"})
OTHER = frozenset({"ACPS", "Aminotran_1_2", "Aminotran_3", "Aminotran_4", "Aminotran_5", "B", "ECH", "F",
                   "FkbH", "GNAT", "Hal", "IBH_Asp", "Interface", "NAD_binding_4", "Polyketide_cyc",
                   "Polyketide_cyc2", "PS", "PT", "TIGR02353", "X"})

LOADERS = ADENYLATIONS | ACYLTRANSFERASES | {"CAL_domain"}
# domains that can only open a module (a loader opens one too, but then doubles as the loader)
STARTER_ONLY = (CONDENSATIONS | KETOSYNTHASES | ALTERNATE_STARTERS) - LOADERS
FUSED_STARTERS = ADENYLATIONS | ACYLTRANSFERASES | {"Interface"}
DOUBLE_TRANSPORTER = (("LPG_synthase_C", "Beta_elim_lyase"),)
TERMINATING = frozenset({"Thioesterase", "TD"})

KNOWN = (ADENYLATIONS | ACYLTRANSFERASES | CONDENSATIONS | ENDS | KETOSYNTHASES | MODIFIERS | CARRIERS
         | ALTERNATE_STARTERS | IGNORED | SPECIAL | OTHER)

CLASS_OF = {}
for _key, _names in (("A", ADENYLATIONS), ("AT", ACYLTRANSFERASES), ("C", CONDENSATIONS), ("S", ALTERNATE_STARTERS),
                     ("E", ENDS), ("KS", KETOSYNTHASES), ("+", MODIFIERS), ("CP", CARRIERS), ("!", SPECIAL),
                     (".", OTHER), ("ignore", IGNORED)):
    for _name in _names:
        CLASS_OF[_name] = _key


def pks_specific(label: str) -> bool:
    return label.startswith("PKS") or label in ACYLTRANSFERASES or label in KETOSYNTHASES


def nrps_specific(label: str) -> bool:
    return label in ADENYLATIONS or label in CONDENSATIONS


def labels_of(comps) -> list:
    return [c[0] for c in comps]


def starter_of(comps):
    """ the component acting as starter: the first starter-only domain, else the loader """
    for comp in comps:
        if comp[0] in STARTER_ONLY:
            return comp
    for comp in comps:
        if comp[0] in LOADERS:
            return comp
    return None


def loader_of(comps):
    for comp in comps:
        if comp[0] in LOADERS:
            return comp
    return None


def has_carrier(comps) -> bool:
    return any(c[0] in CARRIERS for c in comps)


def is_trans_at(comps) -> bool:
    """ trans-AT module: a PKS module with a starter, no loader of its own, and either a KS typed
        Trans-AT-KS or a trans-AT docking domain """
    labels = labels_of(comps)
    if any(l in LOADERS for l in labels):
        return False
    starters = [c for c in comps if c[0] in STARTER_ONLY]
    if not starters or not any(pks_specific(l) for l in labels):
        return False
    return starters[0][1] == "Trans-AT-KS" or "Trans-AT_docking" in labels


def trans_at_is_documented_shape(comps) -> bool:
    """ the documented trans-AT module starts with a KS; other starters are an undocumented corner """
    starters = [c for c in comps if c[0] in STARTER_ONLY]
    return bool(starters) and starters[0][0] in KETOSYNTHASES


def expect_complete(comps, first_in_cds: bool) -> bool:
    """ complete = starter + loader + carrier protein, where a loader may double as the starter only
        in the first module of its gene; or trans-AT + carrier protein """
    labels = labels_of(comps)
    has_loader = any(l in LOADERS for l in labels)
    has_starter_only = any(l in STARTER_ONLY for l in labels)
    carrier = has_carrier(comps)
    if has_loader and not has_starter_only and not first_in_cds:
        return False
    if has_loader and carrier:
        return True
    return bool(is_trans_at(comps) and carrier)


def double_transporter_tail(labels, following=()) -> tuple:
    """ -> (indices of extra carrier proteins that are NOT covered by the documented case,
            indices of the modification domains that belong to a documented case) """
    ext = list(labels) + list(following)
    carriers = [i for i, l in enumerate(labels) if l in CARRIERS]
    bad, exempt = [], set()
    for i in carriers[1:]:
        if tuple(ext[i + 1:i + 3]) in DOUBLE_TRANSPORTER:
            exempt.update(j for j in (i + 1, i + 2) if j < len(labels))
        else:
            bad.append(i)
    return bad, exempt


def layout_problems(comps, following=()) -> list:
    """ names of the layout rules a module with these components breaks ([] = respects the layout).
        `following`: labels that come after the last component in the gene; only used to decide
        whether a *trailing* extra carrier protein is the start of the documented double case """
    labels = labels_of(comps)
    problems = []
    if any(l in IGNORED for l in labels):
        problems.append("docking-domain-inside-module")
    extra_carriers, exempt = double_transporter_tail(labels, following)
    if extra_carriers:
        problems.append("two-carrier-proteins")
    ends = [i for i, l in enumerate(labels) if l in ENDS]
    if len(ends) > 1:
        problems.append("two-terminating-domains")
    if ends and any(l not in SPECIAL and l not in ENDS for l in labels[ends[0] + 1:]):
        problems.append("domain-after-terminating-domain")
    starters = [i for i, l in enumerate(labels) if l in STARTER_ONLY]
    if len(starters) > 1:
        problems.append("two-starters")
    elif starters and starters[0] != 0:
        problems.append("starter-not-first")
    loaders = [i for i, l in enumerate(labels) if l in LOADERS]
    if len(loaders) > 1:
        problems.append("two-loaders")
    if loaders:
        if any(l in MODIFIERS or l in CARRIERS for l in labels[:loaders[0]]):
            problems.append("loader-after-modification-or-carrier")
        if starters:
            start, load = labels[starters[0]], labels[loaders[0]]
            if (pks_specific(start) and nrps_specific(load)) or (nrps_specific(start) and pks_specific(load)):
                problems.append("nrps-pks-starter-loader-mix")
    carriers = [i for i, l in enumerate(labels) if l in CARRIERS]
    if carriers:
        for j in range(carriers[0] + 1, len(labels)):
            if labels[j] in MODIFIERS and j not in exempt:
                if not (labels[j] == "PKS_KR" and is_trans_at(comps[:j])):
                    problems.append("modification-after-carrier")
                    break
    return problems


def fits(comps, nxt, following=()) -> bool:
    """ would the module still respect the layout with `nxt` appended? """
    return not layout_problems(list(comps) + [nxt], following)
